#!/bin/bash
# Offline build of the mock Arduino runtime (plain + sanitizer variants). Idempotent.
cd "$(dirname "$0")" || exit 2
export PYTHONPATH="$PWD"
PY=/venv/bin/python
[ -x "$PY" ] || PY=python3
exec "$PY" - <<'PYEOF'
from dst.board import build
for variant in ("plain", "asan"):
    print("runtime", variant, build.ensure_runtime(variant))
PYEOF
