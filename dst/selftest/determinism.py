"""Determinism self-test: same seed => same cases and same outcomes, across fresh interpreters,
hash seeds and worker counts.

usage: python -m dst.selftest.determinism [engine ...] [--runs N]
"""

from __future__ import annotations

import os
import subprocess
import sys

from dst.core.common import VERIF, base_seed


def digests(engine: str, seed: int, runs: int, jobs: int, hashseed: str, tier: str):
    env = dict(os.environ, PYTHONHASHSEED=hashseed, PYTHONPATH=str(VERIF))
    proc = subprocess.run(
        [sys.executable, "-m", "dst.selftest.digest", engine, str(seed), str(runs), str(jobs), tier],
        capture_output=True, text=True, env=env, cwd=str(VERIF), timeout=3600,
    )
    if proc.returncode != 0:
        raise SystemExit(f"digest run failed for {engine}: {proc.stderr[-2000:]}")
    return proc.stdout.splitlines()


def main() -> int:
    from dst.plans import all_engines

    args = [a for a in sys.argv[1:] if not a.startswith("--")]
    runs = 48
    for a in sys.argv[1:]:
        if a.startswith("--runs="):
            runs = int(a.split("=")[1])
    names = args or [e.name for e in all_engines()]
    seed = base_seed()
    bad = 0
    for name in names:
        ref = digests(name, seed, runs, 16, "0", "quick")
        for jobs, hs in ((1, "0"), (16, "12345"), (5, "7")):
            other = digests(name, seed, runs, jobs, hs, "quick")
            diff = [i for i, (a, b) in enumerate(zip(ref, other)) if a != b]
            status = "same" if not diff and len(ref) == len(other) else f"DIFFERENT at runs {diff[:8]}"
            print(f"{name}: jobs=16/hash=0 vs jobs={jobs}/hash={hs}: {status}")
            if diff:
                bad += 1
    print("determinism:", "OK" if not bad else "FAILED")
    return 1 if bad else 0


if __name__ == "__main__":
    sys.exit(main())
