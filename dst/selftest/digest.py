"""Print one digest per run (case + outcome) for the determinism self-test."""

from __future__ import annotations

import json
import multiprocessing
import sys
from concurrent.futures import ProcessPoolExecutor

from dst.core.common import jdump, rng_for, sha
from dst.core.runner import avoid_set

_ENGINE = None


def _init(name):
    global _ENGINE
    from dst.plans import all_engines

    _ENGINE = next(e for e in all_engines() if e.name == name)
    _ENGINE.setup()


def _one(args):
    seed, idx, tier, avoid = args
    rng = rng_for(seed, _ENGINE.name, idx)
    rng._dst_index = idx
    case = _ENGINE.generate(rng, tier, avoid)
    out = _ENGINE.execute(case)
    payload = out.to_json()
    return idx, sha(jdump(case) + jdump(payload))[:24]


def main():
    name, seed, runs, jobs, tier = sys.argv[1], int(sys.argv[2]), int(sys.argv[3]), int(sys.argv[4]), sys.argv[5]
    avoid = tuple(avoid_set(""))
    ctx = multiprocessing.get_context("fork")
    with ProcessPoolExecutor(max_workers=jobs, mp_context=ctx, initializer=_init, initargs=(name,)) as pool:
        results = dict(pool.map(_one, [(seed, i, tier, avoid) for i in range(runs)], chunksize=4))
    for i in range(runs):
        print(i, results[i])


if __name__ == "__main__":
    main()
