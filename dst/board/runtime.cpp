// Deterministic board simulator runtime: virtual clock, scripted inputs, event log,
// loop scheduler.  Linked with one Reduino-generated sketch (setup()/loop()).
//
// usage: sketch <world-file>      event log goes to stdout
//
// The runtime itself never allocates from the heap after start-up (static buffers
// only), so HEAP samples reflect the sketch alone.
#include <Arduino.h>
#include <Servo.h>
#include <Wire.h>
#include <dst_lcd.h>

#include <csignal>
#include <cstdarg>
#include <malloc.h>
#include <sys/time.h>
#include <unistd.h>

#if defined(__has_feature)
#if __has_feature(address_sanitizer)
#define DST_ASAN 1
#endif
#endif
#if defined(__SANITIZE_ADDRESS__)
#define DST_ASAN 1
#endif
#ifdef DST_ASAN
extern "C" size_t __sanitizer_get_current_allocated_bytes();
#endif

namespace {

const int kMaxPins = 64;
const int kMaxSeq = 4096;
const int kMaxPasses = 4096;

struct Seq {
  long *v;
  int n;
  int pos;
};

uint64_t g_now_us = 0;
uint64_t g_cost_us = 0;
long g_max_events = 400000;
long g_events = 0;
int g_passes = 1;
long g_cpu_limit_s = 5;
int g_phase = 0;  // 0 = setup, k+1 = pass k
bool g_dump_lcd = true;
bool g_log_reads = true;

uint64_t g_gaps[kMaxPasses];
int g_ngaps = 0;

unsigned long long g_millis_base = 0;
Seq g_din[kMaxPins];    // level per phase (setup, pass0, pass1, ...), last repeats
Seq g_ain[kMaxPins];    // value per read, last repeats
Seq g_pulse[kMaxPins];  // echo duration per pulseIn call, last repeats
int g_pin_mode[kMaxPins];
int g_pin_level[kMaxPins];
bool g_pin_written[kMaxPins];

char g_serin[8192];
int g_serin_len = 0;
int g_serin_pos = 0;

char g_line[1024];
int g_line_len = 0;
char g_line_types[64];
int g_line_ntypes = 0;

char g_log[1 << 20];
size_t g_log_len = 0;

long g_live_bytes = 0;

dst::LcdModel *g_lcds = nullptr;
int g_lcd_count = 0;
int g_servo_count = 0;

void flush_log() {
  size_t off = 0;
  while (off < g_log_len) {
    ssize_t n = write(1, g_log + off, g_log_len - off);
    if (n <= 0) break;
    off += static_cast<size_t>(n);
  }
  g_log_len = 0;
}

void die(const char *what, int code) {
  char tmp[128];
  int n = snprintf(tmp, sizeof tmp, "%llu %s\n", static_cast<unsigned long long>(g_now_us), what);
  flush_log();
  if (n > 0) { ssize_t r = write(1, tmp, static_cast<size_t>(n)); (void)r; }
  _exit(code);
}

void on_cpu_limit(int) { die("HANG", 3); }
void on_crash(int sig) {
  char tmp[32];
  snprintf(tmp, sizeof tmp, "CRASH sig=%d", sig);
  die(tmp, 5);
}

long seq_phase(Seq &s, int phase) {
  if (s.n == 0) return 0;
  int i = phase < s.n ? phase : s.n - 1;
  return s.v[i];
}

long seq_pop(Seq &s) {
  if (s.n == 0) return 0;
  int i = s.pos < s.n ? s.pos : s.n - 1;
  if (s.pos < s.n) ++s.pos;
  return s.v[i];
}

void load_seq(Seq &s, char *rest) {
  static long pool[1 << 18];
  static int pool_used = 0;
  s.v = pool + pool_used;
  s.n = 0;
  s.pos = 0;
  char *save = nullptr;
  for (char *tok = strtok_r(rest, " \t\r\n", &save); tok; tok = strtok_r(nullptr, " \t\r\n", &save)) {
    if (pool_used >= (1 << 18) || s.n >= kMaxSeq) break;
    pool[pool_used++] = atol(tok);
    ++s.n;
  }
}

void load_world(const char *path) {
  FILE *f = fopen(path, "r");
  if (!f) { fprintf(stderr, "cannot open world file %s\n", path); _exit(2); }
  static char line[1 << 16];
  while (fgets(line, sizeof line, f)) {
    char *save = nullptr;
    char *key = strtok_r(line, " \t\r\n", &save);
    if (!key || key[0] == '#') continue;
    if (!strcmp(key, "passes")) { char *v = strtok_r(nullptr, " \t\r\n", &save); if (v) g_passes = atoi(v); }
    else if (!strcmp(key, "millis_base")) { char *v = strtok_r(nullptr, " \t\r\n", &save); if (v) g_millis_base = strtoull(v, nullptr, 10); }
    else if (!strcmp(key, "boot_us")) { char *v = strtok_r(nullptr, " \t\r\n", &save); if (v) g_now_us = strtoull(v, nullptr, 10); }
    else if (!strcmp(key, "cost_us")) { char *v = strtok_r(nullptr, " \t\r\n", &save); if (v) g_cost_us = strtoull(v, nullptr, 10); }
    else if (!strcmp(key, "max_events")) { char *v = strtok_r(nullptr, " \t\r\n", &save); if (v) g_max_events = atol(v); }
    else if (!strcmp(key, "cpu_limit_s")) { char *v = strtok_r(nullptr, " \t\r\n", &save); if (v) g_cpu_limit_s = atol(v); }
    else if (!strcmp(key, "dump_lcd")) { char *v = strtok_r(nullptr, " \t\r\n", &save); if (v) g_dump_lcd = atoi(v) != 0; }
    else if (!strcmp(key, "gaps")) {
      for (char *tok = strtok_r(nullptr, " \t\r\n", &save); tok && g_ngaps < kMaxPasses; tok = strtok_r(nullptr, " \t\r\n", &save))
        g_gaps[g_ngaps++] = strtoull(tok, nullptr, 10);
    } else if (!strcmp(key, "din") || !strcmp(key, "ain") || !strcmp(key, "pulse")) {
      char *p = strtok_r(nullptr, " \t\r\n", &save);
      if (!p) continue;
      int pin = atoi(p);
      if (pin < 0 || pin >= kMaxPins) continue;
      Seq &s = !strcmp(key, "din") ? g_din[pin] : (!strcmp(key, "ain") ? g_ain[pin] : g_pulse[pin]);
      load_seq(s, save);
    } else if (!strcmp(key, "serin")) {
      // rest of line (hex encoded) is appended to the serial input stream
      char *hex = strtok_r(nullptr, " \t\r\n", &save);
      while (hex && hex[0] && hex[1] && g_serin_len < static_cast<int>(sizeof g_serin) - 1) {
        unsigned v = 0;
        sscanf(hex, "%2x", &v);
        g_serin[g_serin_len++] = static_cast<char>(v);
        hex += 2;
      }
    }
  }
  fclose(f);
  if (g_passes > kMaxPasses) g_passes = kMaxPasses;
}

void tick_cost() { g_now_us += g_cost_us; }

int pin_index(int pin) { return (pin >= 0 && pin < kMaxPins) ? pin : -1; }

}  // namespace

namespace dst {

void log_event(const char *fmt, ...) {
  if (++g_events > g_max_events) die("OVERFLOW", 4);
  if (g_log_len + 1200 > sizeof g_log) flush_log();
  int n = snprintf(g_log + g_log_len, 32, "%llu ", static_cast<unsigned long long>(g_now_us));
  g_log_len += static_cast<size_t>(n);
  va_list ap;
  va_start(ap, fmt);
  n = vsnprintf(g_log + g_log_len, 1100, fmt, ap);
  va_end(ap);
  if (n > 1099) n = 1099;
  g_log_len += static_cast<size_t>(n);
  g_log[g_log_len++] = '\n';
}

uint64_t now_us() { return g_now_us; }
void advance_us(uint64_t us) { g_now_us += us; }
void heap_add(long delta) { g_live_bytes += delta; }
void oob(const char *what, int a, int b) { log_event("OOB %s %d %d", what, a, b); }

void dump_all_lcds(const char *why) {
  for (LcdModel *l = g_lcds; l; l = l->next_) l->dump(why);
}

void sync_marker(const char *line) {
  log_event("SYNC %s", line);
  dump_all_lcds("sync");
}

// ---- LCD model
LcdModel::LcdModel(const char *kind, int cols, int rows)
    : next_(nullptr), id_(g_lcd_count++), kind_(kind), cols_(cols), rows_(rows), cur_col_(0), cur_row_(0),
      begun_(false), cgram_mode_(false), display_on_(true), backlight_on_(false) {
  memset(cells_, ' ', sizeof cells_);
  memset(glyphs_, 0, sizeof glyphs_);
  memset(glyph_set_, 0, sizeof glyph_set_);
  // append to keep declaration order
  LcdModel **p = &g_lcds;
  while (*p) p = &(*p)->next_;
  *p = this;
}

void LcdModel::model_begin(int cols, int rows, const char *how) {
  tick_cost();
  cols_ = cols;
  rows_ = rows;
  if (cols_ > kMaxCols || rows_ > kMaxRows || cols_ < 0 || rows_ < 0) {
    log_event("OOB lcd-geometry %d %d", cols, rows);
    if (cols_ > kMaxCols) cols_ = kMaxCols;
    if (rows_ > kMaxRows) rows_ = kMaxRows;
    if (cols_ < 0) cols_ = 0;
    if (rows_ < 0) rows_ = 0;
  }
  begun_ = true;
  cgram_mode_ = false;
  display_on_ = true;
  memset(cells_, ' ', sizeof cells_);
  cur_col_ = cur_row_ = 0;
  log_event("LCD %d BEGIN %s %d %d", id_, how, cols, rows);
}

void LcdModel::clear() {
  tick_cost();
  if (!begun_) log_event("UNCONFIGURED lcd %d clear", id_);
  memset(cells_, ' ', sizeof cells_);
  cur_col_ = cur_row_ = 0;
  cgram_mode_ = false;
  log_event("LCD %d CLEAR", id_);
}

void LcdModel::home() {
  cur_col_ = cur_row_ = 0;
  cgram_mode_ = false;
  log_event("LCD %d HOME", id_);
}

void LcdModel::setCursor(int col, int row) {
  tick_cost();
  if (!begun_) log_event("UNCONFIGURED lcd %d setCursor", id_);
  log_event("LCD %d CUR %d %d", id_, col, row);
  if (row < 0 || row >= rows_ || col < 0 || col >= (cols_ > 0 ? cols_ : 1) + 0) {
    // a cursor exactly at cols_ is harmless as long as nothing is written there
    if (row < 0 || row >= rows_ || col < 0 || col > cols_) log_event("OOB lcd-cursor %d %d", col, row);
  }
  cur_col_ = col;
  cur_row_ = row;
  cgram_mode_ = false;
}

size_t LcdModel::write(uint8_t c) {
  if (!begun_) log_event("UNCONFIGURED lcd %d write", id_);
  if (cgram_mode_) {
    log_event("OOB lcd-write-in-cgram-mode %d %d", cur_col_, cur_row_);
    return 1;
  }
  if (cur_row_ < 0 || cur_row_ >= rows_ || cur_col_ < 0 || cur_col_ >= cols_) {
    log_event("OOB lcd-write %d %d", cur_col_, cur_row_);
    ++cur_col_;
    return 1;
  }
  cells_[cur_row_][cur_col_] = c;
  log_event("LCD %d W %d %d %02x", id_, cur_col_, cur_row_, c);
  ++cur_col_;
  return 1;
}

void LcdModel::createChar(uint8_t slot, uint8_t *rows8) {
  tick_cost();
  if (!begun_) log_event("UNCONFIGURED lcd %d createChar", id_);
  if (slot > 7) log_event("OOB lcd-glyph-slot %d 0", slot);
  slot &= 7;
  for (int i = 0; i < 8; ++i) glyphs_[slot][i] = rows8[i];
  glyph_set_[slot] = true;
  cgram_mode_ = true;
  log_event("LCD %d GLYPH %d %d %d %d %d %d %d %d %d", id_, slot, rows8[0], rows8[1], rows8[2], rows8[3], rows8[4],
            rows8[5], rows8[6], rows8[7]);
}

void LcdModel::display() { tick_cost(); display_on_ = true; log_event("LCD %d DISPLAY 1", id_); }
void LcdModel::noDisplay() { tick_cost(); display_on_ = false; log_event("LCD %d DISPLAY 0", id_); }
void LcdModel::model_backlight(bool on) { tick_cost(); backlight_on_ = on; log_event("LCD %d BACKLIGHT %d", id_, on ? 1 : 0); }

void LcdModel::dump(const char *why) {
  char tmp[kMaxRows * (kMaxCols * 2 + 1) + 8];
  int n = 0;
  for (int r = 0; r < rows_; ++r) {
    if (r) tmp[n++] = '|';
    for (int c = 0; c < cols_; ++c) n += snprintf(tmp + n, 3, "%02x", cells_[r][c]);
  }
  tmp[n] = 0;
  log_event("LCD %d DUMP %s %d %d disp=%d bl=%d %s", id_, why, cols_, rows_, display_on_ ? 1 : 0, backlight_on_ ? 1 : 0, tmp);
}

}  // namespace dst

// -------------------------------------------------------------------- core API
void pinMode(int pin, int mode) {
  tick_cost();
  const char *m = mode == OUTPUT ? "OUTPUT" : (mode == INPUT_PULLUP ? "INPUT_PULLUP" : (mode == INPUT ? "INPUT" : "?"));
  dst::log_event("PM %d %s", pin, m);
  int i = pin_index(pin);
  if (i >= 0) g_pin_mode[i] = mode + 1;
}

void digitalWrite(int pin, int value) {
  tick_cost();
  dst::log_event("DW %d %d", pin, value ? 1 : 0);
  int i = pin_index(pin);
  if (i >= 0) { g_pin_level[i] = value ? 1 : 0; g_pin_written[i] = true; }
}

int digitalRead(int pin) {
  tick_cost();
  int i = pin_index(pin);
  int v = 0;
  if (i >= 0) {
    if (g_din[i].n) v = seq_phase(g_din[i], g_phase) ? 1 : 0;
    else if (g_pin_written[i]) v = g_pin_level[i];
    else if (g_pin_mode[i] == INPUT_PULLUP + 1) v = 1;
  }
  dst::log_event("DR %d %d", pin, v);
  return v;
}

void analogWrite(int pin, int value) {
  tick_cost();
  dst::log_event("AW %d %d", pin, value);
  int i = pin_index(pin);
  if (i >= 0) { g_pin_level[i] = value != 0; g_pin_written[i] = true; }
}

int analogRead(int pin) {
  tick_cost();
  int i = pin_index(pin);
  // Arduino accepts both the channel number (0..7) and the pin alias (A0 = 14..)
  if (i >= 0 && i < 8) i += 14;
  int v = 0;
  if (i >= 0) v = static_cast<int>(seq_pop(g_ain[i]));
  dst::log_event("AR %d %d", pin, v);
  return v;
}

void delay(unsigned long ms) {
  dst::log_event("DLY %lu", ms);
  g_now_us += static_cast<uint64_t>(ms) * 1000ULL;
}

void delayMicroseconds(unsigned int us) {
  dst::log_event("DLYUS %u", us);
  g_now_us += us;
}

unsigned long millis() {
  tick_cost();
  // g_millis_base places the run shortly before the counter wraps (unsigned arithmetic wraps at 2^64 here, at 2^32
  // on an AVR: the same modular behaviour for "now - last" / "last + interval" code)
  unsigned long v = static_cast<unsigned long>(g_millis_base + g_now_us / 1000ULL);
  dst::log_event("MILLIS %lu", v);
  return v;
}

unsigned long micros() {
  tick_cost();
  unsigned long v = static_cast<unsigned long>(g_now_us);
  dst::log_event("MICROS %lu", v);
  return v;
}

unsigned long pulseIn(int pin, int state, unsigned long timeout) {
  int i = pin_index(pin);
  long d = 0;
  if (i >= 0) d = seq_pop(g_pulse[i]);
  if (d < 0) d = 0;
  if (d == 0 || static_cast<unsigned long>(d) > timeout) {
    dst::log_event("PULSEIN %d %d %lu -> 0", pin, state, timeout);
    g_now_us += timeout;
    return 0;
  }
  dst::log_event("PULSEIN %d %d %lu -> %ld", pin, state, timeout, d);
  // a real echo: some latency before the pulse starts plus the pulse itself
  g_now_us += 450ULL + static_cast<uint64_t>(d);
  return static_cast<unsigned long>(d);
}

void tone(int pin, unsigned int frequency, unsigned long duration) {
  tick_cost();
  dst::log_event("TONE %d %u %lu", pin, frequency, duration);
}

void noTone(int pin) {
  tick_cost();
  dst::log_event("NOTONE %d", pin);
}

long map(long x, long in_min, long in_max, long out_min, long out_max) {
  if (in_max == in_min) return out_min;
  return (x - in_min) * (out_max - out_min) / (in_max - in_min) + out_min;
}

static unsigned long g_rand = 1;
void randomSeed(unsigned long seed) { g_rand = seed ? seed : 1; }
long random(long howbig) {
  if (howbig <= 0) return 0;
  g_rand = g_rand * 1103515245UL + 12345UL;
  return static_cast<long>((g_rand >> 16) % static_cast<unsigned long>(howbig));
}
long random(long howsmall, long howbig) {
  if (howsmall >= howbig) return howsmall;
  return random(howbig - howsmall) + howsmall;
}

// -------------------------------------------------------------------- Serial
HardwareSerial Serial;
TwoWire Wire;
static bool g_serial_begun = false;

void HardwareSerial::begin(unsigned long baud) {
  tick_cost();
  g_serial_begun = true;
  dst::log_event("SERBEGIN %lu", baud);
}

void HardwareSerial::note(char t) {
  if (g_line_ntypes < static_cast<int>(sizeof g_line_types) - 1) g_line_types[g_line_ntypes++] = t;
}

size_t HardwareSerial::write(uint8_t c) {
  if (c == '\r') return 1;
  if (c == '\n') {
    g_line[g_line_len] = 0;
    g_line_types[g_line_ntypes] = 0;
    if (!g_serial_begun) dst::log_event("UNCONFIGURED serial");
    tick_cost();
    if (g_line_len > 0 && g_line[0] == '@') dst::sync_marker(g_line);
    else dst::log_event("SER %s %s", g_line_ntypes ? g_line_types : "-", g_line);
    g_line_len = 0;
    g_line_ntypes = 0;
    return 1;
  }
  if (g_line_len < static_cast<int>(sizeof g_line) - 1) {
    // keep the log line-oriented and printable: escape everything else
    if (c == '\\') { if (g_line_len < static_cast<int>(sizeof g_line) - 3) { g_line[g_line_len++] = '\\'; g_line[g_line_len++] = '\\'; } }
    else if (c < 0x20 || c >= 0x7f) { if (g_line_len < static_cast<int>(sizeof g_line) - 5) g_line_len += snprintf(g_line + g_line_len, 5, "\\x%02x", c); }
    else g_line[g_line_len++] = static_cast<char>(c);
  }
  return 1;
}

int HardwareSerial::available() { return g_serin_len - g_serin_pos; }
int HardwareSerial::read() { return g_serin_pos < g_serin_len ? static_cast<unsigned char>(g_serin[g_serin_pos++]) : -1; }
int HardwareSerial::peek() { return g_serin_pos < g_serin_len ? static_cast<unsigned char>(g_serin[g_serin_pos]) : -1; }

String Stream::readStringUntil(char terminator) {
  String out;
  int c;
  bool got = false;
  while ((c = read()) >= 0) {
    got = true;
    if (c == terminator) break;
    out += static_cast<char>(c);
  }
  if (!got) dst::advance_us(1000ULL * 1000ULL);  // default Stream timeout
  dst::log_event("SERREAD %s", out.c_str());
  return out;
}

String Stream::readString() {
  String out;
  int c;
  while ((c = read()) >= 0) out += static_cast<char>(c);
  dst::advance_us(1000ULL * 1000ULL);
  return out;
}

// -------------------------------------------------------------------- Servo
Servo::Servo() : id_(g_servo_count++), pin_(-1), attached_(false), min_(544), max_(2400), last_angle_(0), last_us_(0) {}
uint8_t Servo::attach(int pin) { return attach(pin, 544, 2400); }
uint8_t Servo::attach(int pin, int mn, int mx) {
  tick_cost();
  pin_ = pin; min_ = mn; max_ = mx; attached_ = true;
  dst::log_event("SERVO %d ATTACH %d %d %d", id_, pin, mn, mx);
  return 1;
}
void Servo::detach() { attached_ = false; dst::log_event("SERVO %d DETACH", id_); }
void Servo::write(int value) {
  tick_cost();
  if (!attached_) dst::log_event("UNCONFIGURED servo %d write", id_);
  last_angle_ = value;
  dst::log_event("SERVO %d WRITE %d", id_, value);
}
void Servo::writeMicroseconds(int value) {
  tick_cost();
  if (!attached_) dst::log_event("UNCONFIGURED servo %d writeMicroseconds", id_);
  last_us_ = value;
  dst::log_event("SERVO %d WRITEUS %d", id_, value);
}
int Servo::read() { return last_angle_; }
int Servo::readMicroseconds() { return last_us_; }
bool Servo::attached() { return attached_; }

// -------------------------------------------------------------------- heap probe
#ifndef DST_ASAN
void *operator new(size_t n) {
  void *p = malloc(n ? n : 1);
  if (!p) { die("OOM", 6); }
  g_live_bytes += static_cast<long>(malloc_usable_size(p));
  return p;
}
void *operator new[](size_t n) { return operator new(n); }
void operator delete(void *p) noexcept {
  if (!p) return;
  g_live_bytes -= static_cast<long>(malloc_usable_size(p));
  free(p);
}
void operator delete[](void *p) noexcept { operator delete(p); }
void operator delete(void *p, size_t) noexcept { operator delete(p); }
void operator delete[](void *p, size_t) noexcept { operator delete(p); }
#endif

static long heap_now() {
#ifdef DST_ASAN
  return static_cast<long>(__sanitizer_get_current_allocated_bytes());
#else
  return g_live_bytes;
#endif
}

// -------------------------------------------------------------------- scheduler
int main(int argc, char **argv) {
  // Globals of the sketch were constructed before main(); their events carry t=0.
  if (argc < 2) { fprintf(stderr, "usage: %s <world-file>\n", argv[0]); return 2; }
  uint64_t ctor_time = g_now_us;
  load_world(argv[1]);
  (void)ctor_time;

  struct sigaction sa;
  memset(&sa, 0, sizeof sa);
  sa.sa_handler = on_cpu_limit;
  sigaction(SIGVTALRM, &sa, nullptr);
  struct itimerval tv;
  memset(&tv, 0, sizeof tv);
  tv.it_value.tv_sec = g_cpu_limit_s;
  setitimer(ITIMER_VIRTUAL, &tv, nullptr);
#ifndef DST_ASAN
  sa.sa_handler = on_crash;
  sigaction(SIGSEGV, &sa, nullptr);
  sigaction(SIGBUS, &sa, nullptr);
  sigaction(SIGFPE, &sa, nullptr);
  sigaction(SIGABRT, &sa, nullptr);
  sigaction(SIGILL, &sa, nullptr);
#endif

  g_phase = 0;
  dst::log_event("BOOT heap=%ld", heap_now());
  try {
    setup();
  } catch (...) {
    die("CRASH uncaught-exception", 5);
  }
  dst::log_event("SETUP_END heap=%ld", heap_now());
  if (g_dump_lcd) dst::dump_all_lcds("setup");
  for (int k = 0; k < g_passes; ++k) {
    uint64_t gap = g_ngaps ? g_gaps[k < g_ngaps ? k : g_ngaps - 1] : 0;
    g_now_us += gap;
    g_phase = k + 1;
    dst::log_event("PASS %d", k);
    try {
      loop();
    } catch (...) {
      die("CRASH uncaught-exception", 5);
    }
    dst::log_event("PASS_END %d heap=%ld", k, heap_now());
    if (g_dump_lcd) dst::dump_all_lcds("pass");
  }
  dst::log_event("END");
  flush_log();
  return 0;
}
