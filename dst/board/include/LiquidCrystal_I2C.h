#ifndef DST_LIQUIDCRYSTAL_I2C_H
#define DST_LIQUIDCRYSTAL_I2C_H
#include <dst_lcd.h>
class LiquidCrystal_I2C : public dst::LcdModel {
 public:
  LiquidCrystal_I2C(int addr, int cols, int rows) : dst::LcdModel("i2c", cols, rows), c_(cols), r_(rows) {
    dst::log_event("LCD %d NEW i2c addr=%d cols=%d rows=%d", id_, addr, cols, rows);
  }
  void init() { model_begin(c_, r_, "init"); }
  void begin() { model_begin(c_, r_, "init"); }
  void begin(int cols, int rows) { model_begin(cols, rows, "init"); }
  void backlight() { model_backlight(true); }
  void noBacklight() { model_backlight(false); }
  void setBacklight(int v) { model_backlight(v != 0); }
 private:
  int c_, r_;
};
#endif
