// HD44780 cell-matrix model shared by the mock LiquidCrystal and LiquidCrystal_I2C.
#ifndef DST_LCD_H
#define DST_LCD_H
#include <Arduino.h>

namespace dst {

class LcdModel : public Print {
 public:
  static const int kMaxCols = 80;
  static const int kMaxRows = 4;
  LcdModel(const char *kind, int cols, int rows);
  void model_begin(int cols, int rows, const char *how);
  void clear();
  void home();
  void setCursor(int col, int row);
  size_t write(uint8_t c) override;
  using Print::write;
  void createChar(uint8_t slot, uint8_t *rows8);
  void display();
  void noDisplay();
  void cursor() {}
  void noCursor() {}
  void blink() {}
  void noBlink() {}
  void scrollDisplayLeft() {}
  void scrollDisplayRight() {}
  void autoscroll() {}
  void noAutoscroll() {}
  void leftToRight() {}
  void rightToLeft() {}
  void model_backlight(bool on);
  void dump(const char *why);
  int id() const { return id_; }
  LcdModel *next_;

 protected:
  int id_;
  const char *kind_;
  int cols_, rows_;
  int cur_col_, cur_row_;
  bool begun_;
  bool cgram_mode_;
  bool display_on_;
  bool backlight_on_;
  uint8_t cells_[kMaxRows][kMaxCols];
  uint8_t glyphs_[8][8];
  bool glyph_set_[8];
};

}  // namespace dst
#endif
