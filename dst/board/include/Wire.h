#ifndef DST_WIRE_H
#define DST_WIRE_H
#include <Arduino.h>
class TwoWire { public: void begin() {} void setClock(unsigned long) {} };
extern TwoWire Wire;
#endif
