#ifndef DST_LIQUIDCRYSTAL_H
#define DST_LIQUIDCRYSTAL_H
#include <dst_lcd.h>
class LiquidCrystal : public dst::LcdModel {
 public:
  LiquidCrystal(int rs, int en, int d4, int d5, int d6, int d7) : dst::LcdModel("par", 16, 1) {
    dst::log_event("LCD %d NEW par rs=%d rw=-1 en=%d d=%d,%d,%d,%d", id_, rs, en, d4, d5, d6, d7);
  }
  LiquidCrystal(int rs, int rw, int en, int d4, int d5, int d6, int d7) : dst::LcdModel("par", 16, 1) {
    dst::log_event("LCD %d NEW par rs=%d rw=%d en=%d d=%d,%d,%d,%d", id_, rs, rw, en, d4, d5, d6, d7);
  }
  void begin(int cols, int rows, int charsize = 0) { (void)charsize; model_begin(cols, rows, "begin"); }
};
#endif
