// Mock Arduino core for deterministic simulation of Reduino-generated firmware.
// Everything here is a seam owned by the simulator: a virtual microsecond clock,
// scripted inputs, and recording sinks.  No real time, no real I/O besides the log.
#ifndef DST_ARDUINO_H
#define DST_ARDUINO_H

// All standard headers first: Arduino's min/max/abs are macros and would break
// libstdc++ if they were defined before these are parsed.
#include <cstddef>
#include <cstdint>
#include <cstdio>
#include <cstdlib>
#include <cstring>
#include <cmath>
#include <cctype>
#include <new>
#include <utility>
#include <type_traits>
#include <exception>
#include <stdexcept>

typedef uint8_t byte;
typedef bool boolean;
typedef uint16_t word;

#define HIGH 0x1
#define LOW 0x0
#define INPUT 0x0
#define OUTPUT 0x1
#define INPUT_PULLUP 0x2
#define LED_BUILTIN 13

#define A0 14
#define A1 15
#define A2 16
#define A3 17
#define A4 18
#define A5 19
#define A6 20
#define A7 21

#define PI 3.1415926535897932384626433832795
#define DEC 10
#define HEX 16
#define BIN 2

class __FlashStringHelper;
#define F(string_literal) (string_literal)
#define PROGMEM

// ---------------------------------------------------------------- runtime API
namespace dst {
void log_event(const char *fmt, ...) __attribute__((format(printf, 1, 2)));
uint64_t now_us();
void advance_us(uint64_t us);
void heap_add(long delta);
void oob(const char *what, int a, int b);
void sync_marker(const char *line);
}

void pinMode(int pin, int mode);
void digitalWrite(int pin, int value);
int digitalRead(int pin);
void analogWrite(int pin, int value);
int analogRead(int pin);
void delay(unsigned long ms);
void delayMicroseconds(unsigned int us);
unsigned long millis();
unsigned long micros();
unsigned long pulseIn(int pin, int state, unsigned long timeout = 1000000UL);
void tone(int pin, unsigned int frequency, unsigned long duration = 0);
void noTone(int pin);
long map(long x, long in_min, long in_max, long out_min, long out_max);
long random(long howbig);
long random(long howsmall, long howbig);
void randomSeed(unsigned long seed);

// ---------------------------------------------------------------- String
// Exact-fit buffer (capacity == length + 1) so that live heap bytes are a pure
// function of live data; every allocation goes through new[]/delete[].
class String {
 public:
  String() : buf_(nullptr), len_(0) {}
  String(const char *s) : buf_(nullptr), len_(0) { assign(s, s ? strlen(s) : 0); }
  String(const String &o) : buf_(nullptr), len_(0) { assign(o.buf_, o.len_); }
  String(String &&o) noexcept : buf_(o.buf_), len_(o.len_) { o.buf_ = nullptr; o.len_ = 0; }
  String(char c) : buf_(nullptr), len_(0) { assign(&c, 1); }
  String(unsigned char v, unsigned char base = 10) : buf_(nullptr), len_(0) { from_ull(v, base, false); }
  String(int v, unsigned char base = 10) : buf_(nullptr), len_(0) { from_ll(v, base); }
  String(unsigned int v, unsigned char base = 10) : buf_(nullptr), len_(0) { from_ull(v, base, false); }
  String(long v, unsigned char base = 10) : buf_(nullptr), len_(0) { from_ll(v, base); }
  String(unsigned long v, unsigned char base = 10) : buf_(nullptr), len_(0) { from_ull(v, base, false); }
  String(long long v, unsigned char base = 10) : buf_(nullptr), len_(0) { from_ll(v, base); }
  String(unsigned long long v, unsigned char base = 10) : buf_(nullptr), len_(0) { from_ull(v, base, false); }
  String(float v, unsigned char decimals = 2) : buf_(nullptr), len_(0) { from_double(v, decimals); }
  String(double v, unsigned char decimals = 2) : buf_(nullptr), len_(0) { from_double(v, decimals); }
  String(bool v) : buf_(nullptr), len_(0) { assign(v ? "1" : "0", 1); }
  ~String() { release(); }

  String &operator=(const String &o) { if (this != &o) assign(o.buf_, o.len_); return *this; }
  String &operator=(String &&o) noexcept {
    if (this != &o) { release(); buf_ = o.buf_; len_ = o.len_; o.buf_ = nullptr; o.len_ = 0; }
    return *this;
  }
  String &operator=(const char *s) { assign(s, s ? strlen(s) : 0); return *this; }

  unsigned int length() const { return static_cast<unsigned int>(len_); }
  const char *c_str() const { return buf_ ? buf_ : ""; }

  bool concat(const char *s, size_t n) {
    if (n == 0) return true;
    char *next = new char[len_ + n + 1];
    if (len_) memcpy(next, buf_, len_);
    memcpy(next + len_, s, n);
    next[len_ + n] = 0;
    delete[] buf_;
    buf_ = next;
    len_ += n;
    return true;
  }
  String &operator+=(const String &o) { String tmp(o); concat(tmp.c_str(), tmp.len_); return *this; }
  String &operator+=(const char *s) { if (s) concat(s, strlen(s)); return *this; }
  String &operator+=(char c) { concat(&c, 1); return *this; }
  String &operator+=(int v) { String t(v); concat(t.c_str(), t.len_); return *this; }
  String &operator+=(unsigned int v) { String t(v); concat(t.c_str(), t.len_); return *this; }
  String &operator+=(long v) { String t(v); concat(t.c_str(), t.len_); return *this; }
  String &operator+=(unsigned long v) { String t(v); concat(t.c_str(), t.len_); return *this; }
  String &operator+=(float v) { String t(v); concat(t.c_str(), t.len_); return *this; }
  String &operator+=(double v) { String t(v); concat(t.c_str(), t.len_); return *this; }

  char charAt(unsigned int i) const {
    if (i >= len_) { dst::oob("String.charAt", static_cast<int>(i), static_cast<int>(len_)); return 0; }
    return buf_[i];
  }
  char operator[](unsigned int i) const { return charAt(i); }
  char &operator[](unsigned int i) {
    static char dummy;
    if (i >= len_) { dst::oob("String[]", static_cast<int>(i), static_cast<int>(len_)); dummy = 0; return dummy; }
    return buf_[i];
  }

  String substring(unsigned int from) const { return substring(from, static_cast<unsigned int>(len_)); }
  String substring(unsigned int from, unsigned int to) const {
    if (from > to) { unsigned int t = from; from = to; to = t; }
    String out;
    if (from >= len_) return out;
    if (to > len_) to = static_cast<unsigned int>(len_);
    out.assign(buf_ + from, to - from);
    return out;
  }
  int indexOf(char c) const {
    for (size_t i = 0; i < len_; ++i) if (buf_[i] == c) return static_cast<int>(i);
    return -1;
  }
  int indexOf(const String &s) const {
    if (s.len_ == 0) return 0;
    if (!buf_) return -1;
    const char *p = strstr(buf_, s.c_str());
    return p ? static_cast<int>(p - buf_) : -1;
  }
  long toInt() const { return buf_ ? atol(buf_) : 0; }
  float toFloat() const { return buf_ ? static_cast<float>(atof(buf_)) : 0.0f; }
  double toDouble() const { return buf_ ? atof(buf_) : 0.0; }
  void toUpperCase() { for (size_t i = 0; i < len_; ++i) buf_[i] = static_cast<char>(toupper(buf_[i])); }
  void toLowerCase() { for (size_t i = 0; i < len_; ++i) buf_[i] = static_cast<char>(tolower(buf_[i])); }
  void trim() {
    size_t a = 0, b = len_;
    while (a < b && isspace(static_cast<unsigned char>(buf_[a]))) ++a;
    while (b > a && isspace(static_cast<unsigned char>(buf_[b - 1]))) --b;
    String t; t.assign(buf_ + a, b - a); *this = t;
  }
  bool equals(const String &o) const { return len_ == o.len_ && (len_ == 0 || memcmp(buf_, o.buf_, len_) == 0); }
  bool equals(const char *s) const { return strcmp(c_str(), s ? s : "") == 0; }
  int compareTo(const String &o) const { return strcmp(c_str(), o.c_str()); }
  bool startsWith(const String &p) const { return p.len_ <= len_ && memcmp(c_str(), p.c_str(), p.len_) == 0; }
  bool endsWith(const String &p) const {
    return p.len_ <= len_ && memcmp(c_str() + (len_ - p.len_), p.c_str(), p.len_) == 0;
  }

 private:
  void release() { delete[] buf_; buf_ = nullptr; len_ = 0; }
  void assign(const char *s, size_t n) {
    char *next = nullptr;
    if (n) { next = new char[n + 1]; memcpy(next, s, n); next[n] = 0; }
    delete[] buf_;
    buf_ = next;
    len_ = n;
  }
  void from_ll(long long v, unsigned char base) {
    if (base == 10) { char tmp[32]; int n = snprintf(tmp, sizeof tmp, "%lld", v); assign(tmp, static_cast<size_t>(n)); }
    else from_ull(static_cast<unsigned long long>(v), base, false);
  }
  void from_ull(unsigned long long v, unsigned char base, bool) {
    char tmp[72]; int pos = 71; tmp[pos] = 0;
    if (base < 2) base = 10;
    do { int d = static_cast<int>(v % base); tmp[--pos] = static_cast<char>(d < 10 ? '0' + d : 'A' + d - 10); v /= base; } while (v);
    assign(tmp + pos, static_cast<size_t>(71 - pos));
  }
  void from_double(double v, unsigned char decimals) {
    char tmp[64];
    int n;
    if (std::isnan(v)) n = snprintf(tmp, sizeof tmp, "nan");
    else if (std::isinf(v)) n = snprintf(tmp, sizeof tmp, "inf");
    else if (v > 4294967040.0 || v < -4294967040.0) n = snprintf(tmp, sizeof tmp, "ovf");
    else n = snprintf(tmp, sizeof tmp, "%.*f", static_cast<int>(decimals), v);
    assign(tmp, static_cast<size_t>(n));
  }
  char *buf_;
  size_t len_;
};

inline String operator+(const String &a, const String &b) { String r(a); r += b; return r; }
inline String operator+(const String &a, const char *b) { String r(a); r += b; return r; }
inline String operator+(const char *a, const String &b) { String r(a); r += b; return r; }
inline String operator+(const String &a, char b) { String r(a); r += b; return r; }
inline String operator+(char a, const String &b) { String r(a); r += b; return r; }
inline String operator+(const String &a, int b) { String r(a); r += b; return r; }
inline String operator+(const String &a, unsigned int b) { String r(a); r += b; return r; }
inline String operator+(const String &a, long b) { String r(a); r += b; return r; }
inline String operator+(const String &a, unsigned long b) { String r(a); r += b; return r; }
inline String operator+(const String &a, float b) { String r(a); r += b; return r; }
inline String operator+(const String &a, double b) { String r(a); r += b; return r; }
inline bool operator==(const String &a, const String &b) { return a.equals(b); }
inline bool operator==(const String &a, const char *b) { return a.equals(b); }
inline bool operator==(const char *a, const String &b) { return b.equals(a); }
inline bool operator!=(const String &a, const String &b) { return !a.equals(b); }
inline bool operator!=(const String &a, const char *b) { return !a.equals(b); }
inline bool operator!=(const char *a, const String &b) { return !b.equals(a); }
inline bool operator<(const String &a, const String &b) { return a.compareTo(b) < 0; }
inline bool operator>(const String &a, const String &b) { return a.compareTo(b) > 0; }
inline bool operator<=(const String &a, const String &b) { return a.compareTo(b) <= 0; }
inline bool operator>=(const String &a, const String &b) { return a.compareTo(b) >= 0; }

// ---------------------------------------------------------------- Print
// print() overload set mirrors Arduino's Print: there is no bool overload, so a
// bool promotes to int and prints 1/0.
class Print {
 public:
  virtual ~Print() {}
  virtual size_t write(uint8_t c) = 0;
  size_t write(const char *s) { size_t n = 0; if (s) while (*s) n += write(static_cast<uint8_t>(*s++)); return n; }
  size_t print(const String &s) { note('S'); return write(s.c_str()); }
  size_t print(const char *s) { note('s'); return write(s); }
  size_t print(char c) { note('c'); return write(static_cast<uint8_t>(c)); }
  size_t print(unsigned char v, int base = DEC) { note('u'); return write(String(v, static_cast<unsigned char>(base)).c_str()); }
  size_t print(int v, int base = DEC) { note('i'); return write(String(v, static_cast<unsigned char>(base)).c_str()); }
  size_t print(unsigned int v, int base = DEC) { note('u'); return write(String(v, static_cast<unsigned char>(base)).c_str()); }
  size_t print(long v, int base = DEC) { note('i'); return write(String(v, static_cast<unsigned char>(base)).c_str()); }
  size_t print(unsigned long v, int base = DEC) { note('u'); return write(String(v, static_cast<unsigned char>(base)).c_str()); }
  size_t print(long long v, int base = DEC) { note('i'); return write(String(v, static_cast<unsigned char>(base)).c_str()); }
  size_t print(unsigned long long v, int base = DEC) { note('u'); return write(String(v, static_cast<unsigned char>(base)).c_str()); }
  size_t print(double v, int decimals = 2) { note('f'); return write(String(v, static_cast<unsigned char>(decimals)).c_str()); }
  size_t println() { return write("\r\n"); }
  template <typename T> size_t println(const T &v) { size_t n = print(v); return n + println(); }
  template <typename T> size_t println(const T &v, int arg) { size_t n = print(v, arg); return n + println(); }
 protected:
  virtual void note(char) {}
};

class Stream : public Print {
 public:
  virtual int available() = 0;
  virtual int read() = 0;
  virtual int peek() = 0;
  String readStringUntil(char terminator);
  String readString();
  void setTimeout(unsigned long) {}
};

class HardwareSerial : public Stream {
 public:
  void begin(unsigned long baud);
  void end() {}
  size_t write(uint8_t c) override;
  using Print::write;
  int available() override;
  int read() override;
  int peek() override;
  void flush() {}
  operator bool() const { return true; }
 protected:
  void note(char t) override;
};

extern HardwareSerial Serial;

// Arduino's function-like macros (double evaluation is intentional and faithful).
#define min(a, b) ((a) < (b) ? (a) : (b))
#define max(a, b) ((a) > (b) ? (a) : (b))
#define abs(x) ((x) > 0 ? (x) : -(x))
#define constrain(amt, low, high) ((amt) < (low) ? (low) : ((amt) > (high) ? (high) : (amt)))
#define round(x) ((x) >= 0 ? (long)((x) + 0.5) : (long)((x)-0.5))
#define radians(deg) ((deg)*DEG_TO_RAD)
#define degrees(rad) ((rad)*RAD_TO_DEG)
#define sq(x) ((x) * (x))
#define lowByte(w) ((uint8_t)((w)&0xff))
#define highByte(w) ((uint8_t)((w) >> 8))
#define bitRead(value, bit) (((value) >> (bit)) & 0x01)

void setup();
void loop();

#endif
