#ifndef DST_SERVO_H
#define DST_SERVO_H
#include <Arduino.h>
class Servo {
 public:
  Servo();
  uint8_t attach(int pin);
  uint8_t attach(int pin, int min, int max);
  void detach();
  void write(int value);
  void writeMicroseconds(int value);
  int read();
  int readMicroseconds();
  bool attached();
 private:
  int id_;
  int pin_;
  bool attached_;
  int min_, max_;
  int last_angle_, last_us_;
};
#endif
