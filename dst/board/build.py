"""Build and run Reduino-generated sketches against the mock Arduino core."""

from __future__ import annotations

import fcntl
import os
import shutil
import subprocess
import tempfile
from dataclasses import dataclass
from pathlib import Path
from typing import Dict, List, Optional, Sequence

from dst.core.common import WORK, sha

BOARD_DIR = Path(__file__).resolve().parent
INCLUDE = BOARD_DIR / "include"
RUNTIME_SRC = BOARD_DIR / "runtime.cpp"

COMMON_FLAGS = ["-std=gnu++17", "-w", "-fpermissive"]
VARIANTS: Dict[str, Dict[str, object]] = {
    "plain": {"cxx": "g++", "flags": ["-O0"]},
    "asan": {
        "cxx": "clang++",
        "flags": ["-O1", "-g", "-fno-omit-frame-pointer", "-fsanitize=address,undefined", "-fno-sanitize-recover=undefined"],
    },
}

# The libraries a sketch may use; the C12 fake PlatformIO restricts this list to lib_deps.
LIB_HEADERS = {
    "Servo": ["Servo.h"],
    "LiquidCrystal": ["LiquidCrystal.h"],
    "LiquidCrystal_I2C": ["LiquidCrystal_I2C.h", "Wire.h"],
}


class BuildError(Exception):
    def __init__(self, message: str, stderr: str = "") -> None:
        super().__init__(message)
        self.stderr = stderr


def _sources_digest() -> str:
    parts = []
    for path in sorted(list(INCLUDE.glob("*.h")) + [RUNTIME_SRC]):
        parts.append(path.name)
        parts.append(path.read_text())
    return sha("\n".join(parts))[:16]


def variant_dir(variant: str) -> Path:
    return WORK / "board" / variant


def ensure_runtime(variant: str = "plain") -> Path:
    """Compile runtime.o and the precompiled Arduino.h for ``variant`` (idempotent, locked)."""

    spec = VARIANTS[variant]
    out = variant_dir(variant)
    out.mkdir(parents=True, exist_ok=True)
    stamp = out / "stamp"
    digest = _sources_digest()
    if stamp.exists() and stamp.read_text() == digest:
        return out
    lock_path = out / "lock"
    with open(lock_path, "w") as lock:
        fcntl.flock(lock, fcntl.LOCK_EX)
        if stamp.exists() and stamp.read_text() == digest:
            return out
        cxx = [spec["cxx"], *COMMON_FLAGS, *spec["flags"]]
        pch_dir = out / "pch"
        if pch_dir.exists():
            shutil.rmtree(pch_dir)
        pch_dir.mkdir(parents=True)
        for header in INCLUDE.glob("*.h"):
            shutil.copy(header, pch_dir / header.name)
        proc = subprocess.run(
            [*cxx, f"-I{pch_dir}", "-c", str(RUNTIME_SRC), "-o", str(out / "runtime.o")],
            capture_output=True,
            text=True,
        )
        if proc.returncode != 0:
            raise BuildError("mock runtime does not build", proc.stderr)
        pch_out = pch_dir / ("Arduino.h.gch" if spec["cxx"] == "g++" else "Arduino.h.pch")
        proc = subprocess.run(
            [*cxx, f"-I{pch_dir}", "-x", "c++-header", str(pch_dir / "Arduino.h"), "-o", str(pch_out)],
            capture_output=True,
            text=True,
        )
        if proc.returncode != 0:
            raise BuildError("precompiled header does not build", proc.stderr)
        stamp.write_text(digest)
    return out


@dataclass
class RunResult:
    exit_code: int
    log: str
    stderr: str

    @property
    def lines(self) -> List[str]:
        return self.log.splitlines()


def sketch_dir() -> Path:
    d = WORK / "sk" / str(os.getpid())
    d.mkdir(parents=True, exist_ok=True)
    return d


def build_sketch(cpp: str, variant: str = "plain", libs: Optional[Sequence[str]] = None) -> Path:
    """Compile+link ``cpp``; returns the binary path.  Raises BuildError with the compiler output."""

    spec = VARIANTS[variant]
    base = ensure_runtime(variant)
    pch_dir = base / "pch"
    d = sketch_dir()
    tag = sha(cpp + variant + repr(libs))[:20]
    src = d / f"{tag}.cpp"
    out = d / f"{tag}.bin"
    src.write_text(cpp)
    cxx = [spec["cxx"], *COMMON_FLAGS, *spec["flags"]]
    include_args: List[str]
    if libs is None:
        include_args = [f"-I{pch_dir}"]
    else:
        # restricted include path: core headers plus only the declared libraries
        inc = d / f"{tag}.inc"
        if inc.exists():
            shutil.rmtree(inc)
        inc.mkdir()
        for name in ("Arduino.h", "dst_lcd.h"):
            shutil.copy(INCLUDE / name, inc / name)
        for lib in libs:
            for header in LIB_HEADERS.get(lib, []):
                shutil.copy(INCLUDE / header, inc / header)
        include_args = [f"-I{inc}"]
    cmd = [*cxx, *include_args]
    if spec["cxx"] == "clang++" and libs is None:
        cmd += ["-include-pch", str(pch_dir / "Arduino.h.pch")]
    cmd += [str(src), str(base / "runtime.o"), "-o", str(out)]
    proc = subprocess.run(cmd, capture_output=True, text=True)
    try:
        src.unlink()
    except OSError:
        pass
    if libs is not None:
        shutil.rmtree(d / f"{tag}.inc", ignore_errors=True)
    if proc.returncode != 0:
        raise BuildError("sketch does not build", proc.stderr[-4000:])
    return out


def render_world(world: dict) -> str:
    lines = [f"passes {int(world.get('passes', 1))}"]
    if world.get("boot_us"):
        lines.append(f"boot_us {int(world['boot_us'])}")
    if world.get("millis_base"):
        lines.append(f"millis_base {int(world['millis_base'])}")
    if world.get("cost_us"):
        lines.append(f"cost_us {int(world['cost_us'])}")
    if world.get("max_events"):
        lines.append(f"max_events {int(world['max_events'])}")
    if world.get("cpu_limit_s"):
        lines.append(f"cpu_limit_s {int(world['cpu_limit_s'])}")
    if "dump_lcd" in world:
        lines.append(f"dump_lcd {1 if world['dump_lcd'] else 0}")
    gaps = world.get("gaps") or []
    if gaps:
        lines.append("gaps " + " ".join(str(int(g)) for g in gaps))
    for key in ("din", "ain", "pulse"):
        for pin, seq in sorted((world.get(key) or {}).items(), key=lambda kv: int(kv[0])):
            if seq:
                lines.append(f"{key} {int(pin)} " + " ".join(str(int(v)) for v in seq))
    serin = world.get("serin")
    if serin:
        lines.append("serin " + serin.encode("utf-8").hex())
    return "\n".join(lines) + "\n"


def run_sketch(binary: Path, world: dict, *, timeout_s: float = 60.0, env_extra: Optional[dict] = None) -> RunResult:
    d = sketch_dir()
    fd, wpath = tempfile.mkstemp(prefix="w", suffix=".txt", dir=d)
    with os.fdopen(fd, "w") as fh:
        fh.write(render_world(world))
    env = dict(os.environ)
    env.setdefault("ASAN_OPTIONS", "detect_leaks=0:exitcode=66:abort_on_error=0:allocator_may_return_null=1")
    env.setdefault("UBSAN_OPTIONS", "print_stacktrace=0:halt_on_error=1:exitcode=67")
    if env_extra:
        env.update(env_extra)
    try:
        proc = subprocess.run(
            [str(binary), wpath], capture_output=True, timeout=timeout_s, env=env
        )
        return RunResult(
            proc.returncode,
            proc.stdout.decode("utf-8", "replace"),
            proc.stderr.decode("utf-8", "replace")[-6000:],
        )
    except subprocess.TimeoutExpired as exc:
        out = (exc.stdout or b"").decode("utf-8", "replace")
        return RunResult(-9, out + "\n0 WALLTIMEOUT\n", "wall timeout")
    finally:
        try:
            os.unlink(wpath)
        except OSError:
            pass


def discard(binary: Optional[Path]) -> None:
    if binary is None:
        return
    try:
        binary.unlink()
    except OSError:
        pass


def cleanup_process_dir() -> None:
    shutil.rmtree(WORK / "sk" / str(os.getpid()), ignore_errors=True)
