"""Event traces of the simulated board and of the host executor, and their comparison.

The refinement mapping (DESIGN.md 2.4) lives here:
  * per-channel comparison (serial, each pin, each servo, phase boundaries),
  * HIGH == duty 255, no-op writes dropped,
  * serial lines compared as text or numerically tolerant token by token,
  * timestamps agree within 1 ms per delay call so far.
"""

from __future__ import annotations

import re
from dataclasses import dataclass, field
from typing import Dict, List, Optional, Tuple

PHASE_SETUP = -1  # phase index: -1 = setup, k = pass k


@dataclass
class Obs:
    """One observable on one channel."""

    phase: int
    value: object
    t_ms: float
    delays_before: int


@dataclass
class Trace:
    channels: Dict[str, List[Obs]] = field(default_factory=dict)
    raw: List[Tuple] = field(default_factory=list)  # (t_ms, phase, kind, args)
    status: str = "ok"  # ok | hang | crash | overflow | sanitizer | timeout
    detail: str = ""
    delays: int = 0
    end_ms: float = 0.0

    def add(self, channel: str, phase: int, value, t_ms: float) -> None:
        self.channels.setdefault(channel, []).append(Obs(phase, value, t_ms, self.delays))


_BOARD_STATUS = {"HANG": "hang", "OVERFLOW": "overflow", "WALLTIMEOUT": "timeout", "OOM": "crash"}


def parse_board_log(log: str, exit_code: int = 0, stderr: str = "") -> Trace:
    """Turn the board's event log into a Trace (all events kept in ``raw``)."""

    tr = Trace()
    phase = PHASE_SETUP
    pin_level: Dict[int, int] = {}
    servo_cfg: Dict[str, bool] = {}
    servo_pin: Dict[str, int] = {}
    for line in log.splitlines():
        if not line:
            continue
        parts = line.split(" ", 2)
        if len(parts) < 2:
            continue
        try:
            t_us = int(parts[0])
        except ValueError:
            continue
        kind = parts[1]
        rest = parts[2] if len(parts) > 2 else ""
        t_ms = t_us / 1000.0
        tr.raw.append((t_ms, phase, kind, rest))
        if kind == "PASS":
            phase = int(rest)
            tr.raw[-1] = (t_ms, phase, kind, rest)
            tr.add("phase", phase, "pass", t_ms)
        elif kind == "END":
            tr.add("phase", phase, "end", t_ms)
            tr.end_ms = t_ms
        elif kind == "SER":
            types, _, text = rest.partition(" ")
            tr.add("ser", phase, _unescape(text), t_ms)
        elif kind in ("DW", "AW"):
            p, v = rest.split()
            pin = int(p)
            level = int(v)
            if kind == "DW":
                level = 255 if level else 0
            # pins power up LOW: a write of the level a pin already shows is not observable
            if pin_level.get(pin, 0) != level:
                pin_level[pin] = level
                tr.add(f"pin:{pin}", phase, level, t_ms)
        elif kind == "DLY":
            tr.delays += 1
        elif kind == "SERVO":
            sid, op, *args = rest.split()
            if op == "ATTACH":
                servo_cfg[sid] = True
                servo_pin[sid] = int(args[0])
            elif op in ("WRITE", "WRITEUS"):
                if op == "WRITEUS" and servo_cfg.pop(sid, False):
                    continue  # the attach-time park command is configuration, not a user command
                servo_cfg.pop(sid, None)
                tr.add(f"servo:{servo_pin.get(sid, sid)}", phase, (op, int(args[0])), t_ms)
        elif kind == "TONE":
            p, f, d = rest.split()
            tr.add(f"tone:{p}", phase, ("tone", int(f)), t_ms)
        elif kind == "NOTONE":
            tr.add(f"tone:{rest.strip()}", phase, ("notone",), t_ms)
        elif kind in _BOARD_STATUS:
            tr.status = _BOARD_STATUS[kind]
            tr.detail = line
        elif kind == "CRASH":
            tr.status = "crash"
            tr.detail = line
    if tr.status == "ok":
        if exit_code in (66, 67) or "ERROR: AddressSanitizer" in stderr or "runtime error:" in stderr:
            tr.status = "sanitizer"
            tr.detail = _first_sanitizer_line(stderr)
        elif exit_code != 0:
            tr.status = "crash"
            tr.detail = f"exit code {exit_code}: {stderr[-300:]}"
    return tr


_ESC = re.compile(r"\\(\\|x[0-9a-f]{2})")


def _unescape(text: str) -> str:
    if "\\" not in text:
        return text
    return _ESC.sub(lambda m: "\\" if m.group(1) == "\\" else chr(int(m.group(1)[1:], 16)), text)


def _first_sanitizer_line(stderr: str) -> str:
    for line in stderr.splitlines():
        if "ERROR: AddressSanitizer" in line or "runtime error:" in line or "ERROR: LeakSanitizer" in line:
            return line.strip()[:300]
    return stderr.strip()[:300]


# ------------------------------------------------------------------ comparison

_NUM = re.compile(r"-?\d+(?:\.\d+)?(?:[eE][-+]?\d+)?")


def _tokens(text: str) -> List[Tuple[str, object]]:
    text = text.replace("True", "1").replace("False", "0")
    out: List[Tuple[str, object]] = []
    pos = 0
    for m in _NUM.finditer(text):
        if m.start() > pos:
            out.append(("s", text[pos : m.start()]))
        out.append(("n", float(m.group(0))))
        pos = m.end()
    if pos < len(text):
        out.append(("s", text[pos:]))
    return out


def numbers_close(board: float, host: float) -> bool:
    return abs(board - host) <= 0.00501 + 1e-5 * max(abs(board), abs(host))


def serial_equal(board_text: str, host_text: str) -> bool:
    if board_text == host_text:
        return True
    a, b = _tokens(board_text), _tokens(host_text)
    if len(a) != len(b):
        return False
    for (ka, va), (kb, vb) in zip(a, b):
        if ka != kb:
            return False
        if ka == "s":
            if va != vb:
                return False
        elif not numbers_close(va, vb):
            return False
    return True


@dataclass
class Divergence:
    cls: str  # class of violation: "value", "missing", "extra", "phase", "time", "status", "build"
    channel: str
    index: int
    board: object
    host: object
    note: str = ""

    def key(self) -> Tuple[str, str]:
        chan = self.channel.split(":")[0]
        return (self.cls, chan)

    def describe(self) -> str:
        return (
            f"{self.cls} on {self.channel}[{self.index}]: board={self.board!r} host={self.host!r}"
            + (f" ({self.note})" if self.note else "")
        )


def _value_equal(channel: str, b, h, duty_tol: int = 0) -> bool:
    if channel == "ser":
        return serial_equal(str(b), str(h))
    if channel.startswith("pin:") and duty_tol:
        return abs(int(b) - int(h)) <= duty_tol
    return b == h


def compare(
    board: Trace,
    host: Trace,
    *,
    check_time: bool = True,
    channels: Optional[List[str]] = None,
    duty_tol: Optional[Dict[str, int]] = None,
    ignore: Optional[List[str]] = None,
) -> Optional[Divergence]:
    """First divergence between the two traces, or None when they are equivalent."""

    if board.status != "ok":
        return Divergence("status", "board", 0, board.status, "ok", board.detail)
    names = sorted(set(board.channels) | set(host.channels))
    if channels is not None:
        names = [n for n in names if n in channels or n.split(":")[0] in channels]
    if ignore:
        names = [n for n in names if n not in ignore and n.split(":")[0] not in ignore]
    duty_tol = duty_tol or {}
    for name in names:
        bl = board.channels.get(name, [])
        hl = host.channels.get(name, [])
        tol = duty_tol.get(name, 0)
        for i in range(max(len(bl), len(hl))):
            if i >= len(bl):
                return Divergence("missing", name, i, None, hl[i].value, f"host phase {hl[i].phase}")
            if i >= len(hl):
                return Divergence("extra", name, i, bl[i].value, None, f"board phase {bl[i].phase}")
            b, h = bl[i], hl[i]
            if not _value_equal(name, b.value, h.value, tol):
                return Divergence("value", name, i, b.value, h.value, f"phase {b.phase}")
            if b.phase != h.phase:
                return Divergence("phase", name, i, (b.value, b.phase), (h.value, h.phase))
            if check_time:
                allowed = 1.0 * max(b.delays_before, h.delays_before) + 0.002
                if abs(b.t_ms - h.t_ms) > allowed:
                    return Divergence(
                        "time", name, i, round(b.t_ms, 3), round(h.t_ms, 3), f"allowed skew {allowed:.3f} ms"
                    )
    return None


def shape_digest(tr: Trace) -> str:
    """Digest of the observable shape of a trace (used to count distinct behaviours)."""

    import hashlib

    h = hashlib.sha256()
    for name in sorted(tr.channels):
        h.update(name.encode())
        for o in tr.channels[name]:
            h.update(repr((o.phase, o.value)).encode())
    return h.hexdigest()[:16]


def nontrivial(tr: Trace) -> bool:
    """A trace is non-trivial when it shows at least one user observable besides phase marks."""

    return any(name != "phase" and obs for name, obs in tr.channels.items())
