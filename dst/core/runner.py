"""Seeded batch runner, replay, minimisation driver, evidence and known-finding protocol.

One integer (VERIF_SEED) decides everything: run ``i`` of engine ``E`` draws all its
choices from ``random.Random(derive_seed(seed, E.name, i))``.  Workers return plain
results that are merged in index order, so output does not depend on the worker count.
Wall-clock budgets only decide how many runs happen, never what a run does.
"""

from __future__ import annotations

import faulthandler
import json
import multiprocessing
import os
import sys
import time
import traceback
from concurrent.futures import ProcessPoolExecutor, as_completed
from dataclasses import dataclass, field
from pathlib import Path
from typing import Callable, Dict, Iterable, List, Optional, Tuple

from dst.core import common
from dst.core.common import EVIDENCE_DIR, KNOWN_FINDINGS, VERIF, WORK, derive_seed, jdump, rng_for


class HarnessError(Exception):
    """The machinery itself failed (never reported as a VIOLATION)."""


@dataclass
class Outcome:
    status: str  # "ok" | "violation" | "discard" | "rejected"
    cls: str = ""  # violation class key, stable under shrinking
    message: str = ""
    digest: str = ""  # behaviour digest for distinctness counting
    nontrivial: bool = False
    sim_ms: float = 0.0
    faults: Dict[str, int] = field(default_factory=dict)
    probes: Dict[str, int] = field(default_factory=dict)
    detail: Dict[str, object] = field(default_factory=dict)

    def to_json(self) -> dict:
        return {
            "status": self.status,
            "cls": self.cls,
            "message": self.message,
            "digest": self.digest,
            "nontrivial": self.nontrivial,
            "sim_ms": self.sim_ms,
            "faults": self.faults,
            "probes": self.probes,
            "detail": self.detail,
        }


class Engine:
    """Base class of all engines.  A *case* is a JSON-serialisable dict."""

    name = "engine"
    property_id = "C00"
    components_real: List[str] = []
    components_stub: List[str] = []
    assumptions: List[str] = []
    rule = ""

    def generate(self, rng, tier: str, avoid: Iterable[str]) -> dict:  # pragma: no cover - interface
        raise NotImplementedError

    def execute(self, case: dict) -> Outcome:  # pragma: no cover - interface
        raise NotImplementedError

    def shrink_candidates(self, case: dict) -> Iterable[dict]:
        return []

    def setup(self) -> None:
        """Per-process preparation (build the mock runtime, import the repo, ...)."""

    def sample_view(self, case: dict) -> object:
        return case


# ------------------------------------------------------------------ workers

_ENGINE: Optional[Engine] = None


def _worker_init(engine: Engine) -> None:
    global _ENGINE
    _ENGINE = engine
    faulthandler.enable()
    try:
        engine.setup()
    except Exception:
        traceback.print_exc()
        raise


_PRISTINE_STATE: Optional[Dict[Tuple[str, str], object]] = None
_STATE_MODULES = ("Reduino", "Reduino.transpile.parser", "Reduino.transpile.emitter", "Reduino.toolchain.pio")


def reset_module_state() -> None:
    """Every case starts from the module state of a fresh interpreter.

    One run is one case: what a case does to module-level containers or memo caches of the code under test must not
    reach the next case of the same worker process, otherwise a violation would depend on the worker's history and
    would not replay from its file.  (Effects that are supposed to be visible across calls are modelled inside a
    case: the call histories of C10, the earlier target() call of C12, the write histories of C13.)"""

    global _PRISTINE_STATE
    import copy
    import sys

    import importlib

    from dst.core.common import setup_repo_import

    setup_repo_import()
    mods = []
    for m in _STATE_MODULES:
        try:
            mods.append(importlib.import_module(m))
        except Exception:
            pass
    if _PRISTINE_STATE is None:
        snap: Dict[Tuple[str, str], object] = {}
        for mod in mods:
            for name, obj in vars(mod).items():
                if isinstance(obj, (dict, list, set)) and not name.startswith("__"):
                    try:
                        snap[(mod.__name__, name)] = copy.deepcopy(obj)
                    except Exception:
                        pass
        _PRISTINE_STATE = snap
        return
    for mod in mods:
        for name, obj in list(vars(mod).items()):
            clear = getattr(obj, "cache_clear", None)
            if callable(clear):
                try:
                    clear()
                except Exception:
                    pass
            key = (mod.__name__, name)
            if key in _PRISTINE_STATE and isinstance(obj, (dict, list, set)):
                pristine = copy.deepcopy(_PRISTINE_STATE[key])
                if obj != pristine:
                    obj.clear()
                    if isinstance(obj, dict):
                        obj.update(pristine)  # type: ignore[arg-type]
                    elif isinstance(obj, list):
                        obj.extend(pristine)  # type: ignore[arg-type]
                    else:
                        obj.update(pristine)  # type: ignore[arg-type]


def _worker_run(args) -> Tuple[int, dict, Optional[dict], float]:
    seed, idx, tier, avoid = args
    engine = _ENGINE
    assert engine is not None
    t0 = time.time()
    rng = rng_for(seed, engine.name, idx)
    rng._dst_index = idx  # engines that enumerate a finite space cycle through it by run index
    try:
        case = engine.generate(rng, tier, avoid)
        case.setdefault("engine", engine.name)
        case.setdefault("property", engine.property_id)
        case["seed"] = seed
        case["run"] = idx
        reset_module_state()
        outcome = engine.execute(case)
    except Exception as exc:
        return idx, {"status": "harness", "message": traceback.format_exc()[-3000:]}, None, time.time() - t0
    keep = case if outcome.status == "violation" or idx < 3 else None
    return idx, outcome.to_json(), keep, time.time() - t0


@dataclass
class BatchResult:
    engine: str
    runs: int = 0
    ok: int = 0
    discards: int = 0
    rejected: int = 0
    violations: List[Tuple[int, dict, dict]] = field(default_factory=list)  # (idx, outcome, case)
    digests: set = field(default_factory=set)
    faults: Dict[str, int] = field(default_factory=dict)
    probes: Dict[str, int] = field(default_factory=dict)
    sim_ms: float = 0.0
    samples: List[dict] = field(default_factory=list)
    wall_s: float = 0.0
    cpu_s: float = 0.0
    harness_errors: List[str] = field(default_factory=list)
    stopped_early: bool = False


def run_batch(
    engine: Engine,
    seed: int,
    runs: int,
    *,
    tier: str,
    avoid: Iterable[str] = (),
    jobs: Optional[int] = None,
    wall_budget_s: Optional[float] = None,
    stop_on_violation: bool = True,
) -> BatchResult:
    jobs = jobs or common.ncpu()
    avoid = tuple(sorted(avoid))
    res = BatchResult(engine=engine.name)
    t0 = time.time()
    results: Dict[int, Tuple[dict, Optional[dict], float]] = {}
    ctx = multiprocessing.get_context("fork")
    chunk = max(jobs * 4, 16)
    next_idx = 0
    with ProcessPoolExecutor(max_workers=jobs, mp_context=ctx, initializer=_worker_init, initargs=(engine,)) as pool:
        while next_idx < runs:
            upto = min(runs, next_idx + chunk)
            futures = [pool.submit(_worker_run, (seed, i, tier, avoid)) for i in range(next_idx, upto)]
            next_idx = upto
            for fut in as_completed(futures):
                idx, outcome, case, dt = fut.result(timeout=1800)
                results[idx] = (outcome, case, dt)
            if stop_on_violation and any(o["status"] == "violation" for o, _c, _d in results.values()):
                res.stopped_early = next_idx < runs
                break
            if any(o["status"] == "harness" for o, _c, _d in results.values()):
                break
            if wall_budget_s is not None and time.time() - t0 > wall_budget_s:
                res.stopped_early = next_idx < runs
                break
    for idx in sorted(results):
        outcome, case, dt = results[idx]
        res.runs += 1
        res.cpu_s += dt
        status = outcome["status"]
        if status == "harness":
            res.harness_errors.append(f"run {idx}: {outcome['message']}")
            continue
        if status == "ok":
            res.ok += 1
        elif status == "discard":
            res.discards += 1
        elif status == "rejected":
            res.rejected += 1
        elif status == "violation":
            res.violations.append((idx, outcome, case))
        if outcome.get("nontrivial") and outcome.get("digest"):
            res.digests.add(outcome["digest"])
        for k, v in (outcome.get("faults") or {}).items():
            res.faults[k] = res.faults.get(k, 0) + v
        for k, v in (outcome.get("probes") or {}).items():
            res.probes[k] = res.probes.get(k, 0) + v
        res.sim_ms += outcome.get("sim_ms", 0.0)
        if case is not None and len(res.samples) < 3 and status in ("ok", "rejected"):
            res.samples.append(engine.sample_view(case))
    res.wall_s = time.time() - t0
    return res


# ------------------------------------------------------------------ replay and minimisation


def replay_dir() -> Path:
    d = WORK / "replays"
    d.mkdir(parents=True, exist_ok=True)
    return d


def execute_case(engine: Engine, case: dict) -> Outcome:
    engine.setup()
    reset_module_state()
    return engine.execute(case)


def minimise(engine: Engine, case: dict, cls: str, *, max_steps: int = 250, max_seconds: float = 240.0) -> Tuple[dict, int]:
    """Greedy structural minimisation keeping the same violation class (bounded in steps and in wall time:
    a candidate that hangs the code under test costs its whole CPU budget)."""

    import time as _time

    engine.setup()
    steps = 0
    current = case
    improved = True
    t_end = _time.monotonic() + max_seconds
    while improved and steps < max_steps and _time.monotonic() < t_end:
        improved = False
        for cand in engine.shrink_candidates(current):
            steps += 1
            if steps > max_steps or _time.monotonic() >= t_end:
                break
            try:
                reset_module_state()
                out = engine.execute(cand)
            except Exception:
                continue
            if out.status == "violation" and out.cls == cls:
                current = cand
                improved = True
                break
    return current, steps


def write_replay(engine: Engine, case: dict, outcome: dict, tag: str) -> Path:
    path = replay_dir() / f"{engine.property_id}-{engine.name}-{tag}.json"
    payload = {"case": case, "violation": {"cls": outcome.get("cls"), "message": outcome.get("message")}}
    path.write_text(json.dumps(payload, indent=1, sort_keys=True))
    return path


# ------------------------------------------------------------------ known findings


def load_known_findings() -> List[dict]:
    if not KNOWN_FINDINGS.exists():
        return []
    data = json.loads(KNOWN_FINDINGS.read_text())
    return list(data.get("findings", []))


def open_findings(property_id: str) -> List[dict]:
    return [f for f in load_known_findings() if f.get("property") == property_id and f.get("status") == "open"]


def avoid_set(property_id: str) -> List[str]:
    """Generator feature switches to turn off: union over *all* open findings.

    A defect listed under one property may be reachable from another property's
    generator (the engines share generators), so the switches are global.
    """

    out = set()
    for f in load_known_findings():
        if f.get("status") == "open":
            out.update(f.get("avoid", []))
    return sorted(out)
