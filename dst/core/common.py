"""Shared plumbing: paths, repo import, seed derivation, digests."""

from __future__ import annotations

import hashlib
import json
import os
import random
import sys
from pathlib import Path

VERIF = Path(__file__).resolve().parents[2]
REPO = Path(os.environ.get("VERIF_REPO", "/repo")).resolve()
REPO_SRC = REPO / "src"
WORK = Path(os.environ.get("VERIF_WORK", str(VERIF / ".work")))
# evidence describes /repo; a run against a scratch copy (sensitivity experiments) must not overwrite it
EVIDENCE_DIR = VERIF / "evidence" if "VERIF_REPO" not in os.environ else WORK / "evidence-scratch"
WITNESS_DIR = VERIF / "witness"
KNOWN_FINDINGS = VERIF / "known_findings.json"

HOOK_ENV = "REDUINO_VERIF"
DEFAULT_SEED = 20261003


def setup_repo_import() -> None:
    """Make ``import Reduino`` resolve to the working tree under test."""

    src = str(REPO_SRC)
    if src in sys.path:
        sys.path.remove(src)
    sys.path.insert(0, src)
    loaded = sys.modules.get("Reduino")
    if loaded is not None:
        origin = getattr(loaded, "__file__", "") or ""
        if not origin.startswith(src):
            for name in [n for n in sys.modules if n == "Reduino" or n.startswith("Reduino.")]:
                del sys.modules[name]


def base_seed() -> int:
    raw = os.environ.get("VERIF_SEED", "")
    try:
        return int(raw)
    except ValueError:
        return DEFAULT_SEED


def derive_seed(*parts) -> int:
    """Stable 63-bit seed from arbitrary parts (independent of PYTHONHASHSEED)."""

    h = hashlib.sha256(repr(tuple(parts)).encode("utf-8")).digest()
    return int.from_bytes(h[:8], "big") >> 1


def rng_for(*parts) -> random.Random:
    return random.Random(derive_seed(*parts))


def sha(text) -> str:
    if isinstance(text, str):
        text = text.encode("utf-8", "surrogatepass")
    return hashlib.sha256(text).hexdigest()


def jdump(obj) -> str:
    return json.dumps(obj, sort_keys=True, ensure_ascii=True)


def tier() -> str:
    return os.environ.get("VERIF_TIER", "quick")


def ncpu() -> int:
    try:
        n = int(os.environ.get("VERIF_JOBS", "0"))
    except ValueError:
        n = 0
    if n > 0:
        return n
    return max(1, min(16, os.cpu_count() or 1))
