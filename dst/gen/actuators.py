"""Seeded generator of actuator operation histories (Led, RGBLed, Servo, DCMotor).

Arguments come as literals (folding paths), as variables, or derived from potentiometer
reads (run-time paths); a getter probe follows every operation so device state is compared
after each step.  In-range by construction (the host classes raise otherwise).

Feature switches (avoid list):
  rgb_fade_half    RGB fade whose interpolation hits an exact .5 (device rounds half away from
                   zero, host rounds half to even)
  motor_tiny_speed motor speeds with 0 < |v| < 1/510 (device: duty 0 -> coast, host: drive)
  arg_reeval       sensor read written inline as an argument (blink/fade/... evaluate it once per step)
  servo_float_pulse non-integer min/max pulse width in the Servo constructor (folded through int)
"""

from __future__ import annotations

import random
from typing import Dict, List, Optional, Sequence, Set, Tuple

ACT_FEATURES = ["rgb_fade_half", "motor_tiny_speed", "servo_float_pulse", "arg_reeval"]

_LED_PINS = [3, 5, 6, 9, 10, 11, 13]
_SPEEDS = [-1.0, -0.75, -0.5, -0.25, -0.125, 0.0, 0.125, 0.25, 0.5, 0.75, 1.0]


class ActGen:
    def __init__(self, rng: random.Random, avoid: Sequence[str] = (), tier: str = "quick", clamp: bool = False) -> None:
        self.rng = rng
        self.clamp = clamp
        self.avoid = set(avoid)
        self.tier = tier
        self.lines: List[str] = []
        self.devices: Dict[str, dict] = {}
        self.used_pins: Set[int] = set()
        self.counter = 0
        self.pots: List[str] = []
        self.vars: Dict[str, Tuple[str, object]] = {}
        self.duty_pins: List[int] = []
        self.features_used: Set[str] = set()

    def emit(self, depth: int, text: str) -> None:
        self.lines.append("    " * depth + text)

    def fresh(self, prefix: str) -> str:
        self.counter += 1
        return f"{prefix}{self.counter}"

    def pin(self, pool: Optional[List[int]] = None) -> int:
        general = list(range(2, 14)) + list(range(22, 40))
        pool = [p for p in (pool or general) if p not in self.used_pins]
        if not pool:
            pool = [p for p in general if p not in self.used_pins]
        p = self.rng.choice(pool)
        self.used_pins.add(p)
        return p

    # ---- argument rendering ------------------------------------------------
    def int_arg(self, lo: int, hi: int, *, runtime_ok: bool = True, boundary: Sequence[int] = (), clampable: bool = False) -> str:
        """An int in [lo, hi] rendered as literal / variable / sensor expression."""

        r = self.rng
        if self.clamp and clampable and runtime_ok and r.random() < 0.45:
            raw = r.choice([lo - 1, lo - r.randint(2, 300), hi + 1, hi + r.randint(2, 300)])
            clamped = min(hi, max(lo, raw))
            token = f"\x01{raw}\x02{clamped}\x03"
            if r.random() < 0.5:
                return token
            name = self.fresh("a")
            self.pending.append(f"{name} = {token}")
            return name
        style = r.choice(["lit", "lit", "var", "sensor"] if runtime_ok else ["lit"])
        pool = list(boundary) or [lo, hi]
        if r.random() < 0.5:
            val = r.choice([v for v in pool if lo <= v <= hi] or [lo])
        else:
            val = r.randint(lo, hi)
        if style == "lit":
            if r.random() < 0.35:
                from dst.gen.constexpr import const_int_expr

                return const_int_expr(r, val)
            return str(val)
        if style == "var":
            name = self.fresh("a")
            self.pending.append(f"{name} = {val}")
            return name
        if style == "sensor" and self.pots and hi - lo >= 3:
            pot = r.choice(self.pots)
            span = hi - lo + 1
            # pot.read() in 0..1023 mapped into [lo, hi] with non-negative integer arithmetic
            return self.runtime(f"({lo} + {pot}.read() % {span})", "a")
        return str(val)

    def runtime(self, expr: str, prefix: str) -> str:
        """A sensor-derived value: inline, or through a variable when inline re-evaluation is avoided."""

        if "arg_reeval" not in self.avoid and self.rng.random() < 0.5:
            self.features_used.add("arg_reeval")
            return expr
        name = self.fresh(prefix)
        self.pending.append(f"{name} = {expr}")
        return name

    def speed_arg(self) -> str:
        r = self.rng
        if self.clamp and r.random() < 0.4:
            raw = r.choice([1.5, -1.25, 2.0, -3.0, 1.0625, 100.0])
            if r.random() < 0.5:
                return repr(raw)
            name = self.fresh("v")
            self.pending.append(f"{name} = {raw!r}")
            return name
        style = r.choice(["lit", "lit", "var", "sensor"])
        val = r.choice(_SPEEDS)
        if "motor_tiny_speed" not in self.avoid and r.random() < 0.1:
            val = r.choice([0.001, -0.0015, 0.0005])
            self.features_used.add("motor_tiny_speed")
        if style == "lit":
            if val == int(val) and r.random() < 0.3:
                return str(int(val))
            if r.random() < 0.3:
                from dst.gen.constexpr import const_float_expr

                return const_float_expr(r, val)
            return repr(val)
        if style == "var":
            name = self.fresh("v")
            self.pending.append(f"{name} = {val!r}")
            return name
        if self.pots:
            pot = r.choice(self.pots)
            return self.runtime(f"(({pot}.read() % 17) * 0.125 - 1.0)", "v")
        return repr(val)

    # ---- declarations ------------------------------------------------------
    def declare(self, depth: int) -> None:
        r = self.rng
        self.emit(0, "from Reduino import target")
        self.emit(0, 'target("COM3")')
        self.emit(0, "from Reduino.Communication import SerialMonitor")
        self.emit(0, "from Reduino.Utils import sleep")
        self.emit(0, "from Reduino.Actuators import Led, RGBLed, Servo, DCMotor")
        self.emit(0, "from Reduino.Sensors import Potentiometer")
        self.emit(0, 'mon = SerialMonitor(9600, "COM3")')
        if r.random() < 0.8:
            for _ in range(r.choice([1, 1, 2])):
                name = self.fresh("pot")
                ch = r.randint(0, 3)
                self.emit(0, f'{name} = Potentiometer("A{ch}")')
                self.pots.append(name)
        kinds = r.sample(["led", "rgb", "servo", "motor"], r.randint(1, 4))
        if r.random() < 0.3:
            kinds.append(r.choice(["led", "servo"]))
        self.decl_lines: List[str] = []
        for kind in kinds:
            name = self.fresh(kind)
            if kind == "led":
                if r.random() < 0.15:
                    if 13 in self.used_pins:
                        continue
                    self.used_pins.add(13)
                    self.decl_lines.append(f"{name} = Led()")
                    self.devices[name] = {"kind": "led", "pin": 13}
                else:
                    p = self.pin(_LED_PINS)
                    form = r.choice([f"Led({p})", f"Led(pin={p})"])
                    self.decl_lines.append(f"{name} = {form}")
                    self.devices[name] = {"kind": "led", "pin": p}
            elif kind == "rgb":
                pins = [self.pin() for _ in range(3)]
                self.decl_lines.append(f"{name} = RGBLed({pins[0]}, {pins[1]}, {pins[2]})")
                self.devices[name] = {"kind": "rgb", "pins": pins}
            elif kind == "servo":
                p = self.pin()
                if r.random() < 0.5:
                    self.decl_lines.append(f"{name} = Servo({p})")
                    self.devices[name] = {"kind": "servo", "pin": p, "amin": 0, "amax": 180, "pmin": 544, "pmax": 2400}
                else:
                    amin = r.choice([0, 10, 45, -90])
                    amax = amin + r.choice([90, 120, 180])
                    pmin = r.choice([500, 544, 1000])
                    pmax = r.choice([2000, 2400, 2500])
                    pmin_txt, pmax_txt = str(pmin), str(pmax)
                    if "servo_float_pulse" not in self.avoid and r.random() < 0.3:
                        pmin_txt = f"{pmin}.5"
                        self.features_used.add("servo_float_pulse")
                    self.decl_lines.append(
                        f"{name} = Servo({p}, min_angle={amin}, max_angle={amax}, min_pulse_us={pmin_txt}, max_pulse_us={pmax_txt})"
                    )
                    self.devices[name] = {"kind": "servo", "pin": p, "amin": amin, "amax": amax, "pmin": pmin, "pmax": pmax}
            else:
                pins = [self.pin() for _ in range(3)]
                self.decl_lines.append(f"{name} = DCMotor({pins[0]}, {pins[1]}, {pins[2]})")
                self.devices[name] = {"kind": "motor", "pins": pins}
                self.duty_pins.append(pins[2])

    # ---- operations --------------------------------------------------------
    def probe(self, depth: int, name: str) -> None:
        kind = self.devices[name]["kind"]
        r = self.rng
        if kind == "led":
            self.emit(depth, f"mon.write({name}.get_state())")
            self.emit(depth, f"mon.write({name}.get_brightness())")
        elif kind == "servo":
            self.emit(depth, f"mon.write({name}.read())")
            self.emit(depth, f"mon.write({name}.read_us())")
        elif kind == "motor":
            self.emit(depth, f"mon.write({name}.get_speed())")
            self.emit(depth, f"mon.write({name}.get_applied_speed())")
            self.emit(depth, f"mon.write({name}.is_inverted())")
            self.emit(depth, f"mon.write({name}.get_mode())")
        else:
            self.emit(depth, f'mon.write("{name}")')

    def op(self, depth: int) -> None:
        r = self.rng
        name = r.choice(sorted(self.devices))
        dev = self.devices[name]
        kind = dev["kind"]
        self.pending: List[str] = []
        call = ""
        if kind == "led":
            which = r.choice(["on", "off", "toggle", "set", "set", "blink", "fade_in", "fade_out", "flash"])
            if which in ("on", "off", "toggle"):
                call = f"{name}.{which}()"
            elif which == "set":
                arg = self.int_arg(0, 255, boundary=[0, 1, 254, 255, 128], clampable=True)
                call = r.choice([f"{name}.set_brightness({arg})", f"{name}.set_brightness(value={arg})"])
            elif which == "blink":
                d = self.int_arg(0, 40, boundary=[0, 1, 25])
                t = self.int_arg(1, 3, runtime_ok=r.random() < 0.5)
                call = r.choice([f"{name}.blink({d}, {t})", f"{name}.blink({d}, times={t})", f"{name}.blink(duration_ms={d}, times={t})", f"{name}.blink({d})"])
            elif which in ("fade_in", "fade_out"):
                step = self.int_arg(20, 130, boundary=[20, 51, 85, 128])
                delay = self.int_arg(0, 12, boundary=[0, 1, 10])
                call = r.choice([
                    f"{name}.{which}({step}, {delay})",
                    f"{name}.{which}(step={step}, delay_ms={delay})",
                    f"{name}.{which}({step})",
                    f"{name}.{which}(delay_ms={delay}, step={step})",
                ])
            else:
                n = r.randint(0, 5)
                items = [r.choice(["0", "1", "1", "0", str(r.randint(2, 255))]) for _ in range(n)]
                delay = self.int_arg(0, 30, runtime_ok=False, boundary=[0, 1, 20])
                call = r.choice([f"{name}.flash_pattern([{', '.join(items)}], {delay})", f"{name}.flash_pattern([{', '.join(items)}], delay_ms={delay})"])
        elif kind == "rgb":
            which = r.choice(["set", "set", "on", "on0", "off", "fade", "blink"])
            comp = lambda: self.int_arg(0, 255, boundary=[0, 1, 255, 127], clampable=True)  # noqa: E731
            if which == "set":
                a, b, c = comp(), comp(), comp()
                call = r.choice([f"{name}.set_color({a}, {b}, {c})", f"{name}.set_color(red={a}, green={b}, blue={c})", f"{name}.set_color({a}, blue={c}, green={b})"])
            elif which == "on":
                call = f"{name}.on({comp()}, {comp()}, {comp()})"
            elif which == "on0":
                call = f"{name}.on()"
            elif which == "off":
                call = f"{name}.off()"
            elif which == "fade":
                steps_pool = [1, 3, 5, 7, 9] if "rgb_fade_half" in self.avoid else [1, 2, 3, 4, 5, 8, 10]
                steps = r.choice(steps_pool)
                if steps % 2 == 0:
                    self.features_used.add("rgb_fade_half")
                dur = r.choice([0, 1, 7, 20, 45, 60])
                a, b, c = comp(), comp(), comp()
                call = r.choice([
                    f"{name}.fade({a}, {b}, {c}, {dur}, {steps})",
                    f"{name}.fade({a}, {b}, {c}, duration_ms={dur}, steps={steps})",
                    f"{name}.fade({a}, {b}, {c}, steps={steps}, duration_ms={dur})",
                ])
            else:
                times = r.randint(1, 3)
                delay = r.choice([0, 1, 9, 30])
                a, b, c = comp(), comp(), comp()
                call = r.choice([
                    f"{name}.blink({a}, {b}, {c}, {times}, {delay})",
                    f"{name}.blink({a}, {b}, {c}, times={times}, delay_ms={delay})",
                    f"{name}.blink({a}, {b}, {c})" if False else f"{name}.blink({a}, {b}, {c}, {times}, delay_ms={delay})",
                ])
        elif kind == "servo":
            which = r.choice(["write", "write", "write_us"])
            if which == "write":
                style = r.choice(["int", "float", "sensor"])
                lo, hi = dev["amin"], dev["amax"]
                if style == "int":
                    arg = self.int_arg(lo, hi, boundary=[lo, hi, (lo + hi) // 2], clampable=True)
                elif style == "float":
                    arg = repr(float(r.randint(lo * 4, hi * 4)) / 4.0)
                elif self.pots:
                    span = hi - lo
                    arg = self.runtime(f"({lo} + ({r.choice(self.pots)}.read() % {span * 4 + 1}) * 0.25)", "g")
                else:
                    arg = str(lo)
                call = r.choice([f"{name}.write({arg})", f"{name}.write(angle={arg})"])
            else:
                lo, hi = dev["pmin"], dev["pmax"]
                arg = self.int_arg(lo, hi, boundary=[lo, hi, (lo + hi) // 2], clampable=True)
                call = f"{name}.write_us({arg})"
        else:
            which = r.choice(["set", "set", "backward", "stop", "coast", "invert", "ramp", "run_for"])
            if which == "set":
                call = f"{name}.set_speed({self.speed_arg()})"
            elif which == "backward":
                call = r.choice([f"{name}.backward({self.speed_arg()})", f"{name}.backward()", f"{name}.backward(speed={self.speed_arg()})"])
            elif which in ("stop", "coast", "invert"):
                call = f"{name}.{which}()"
            elif which == "ramp":
                # known start speed, and no zero crossing inside the ramp (tiny intermediate speeds
                # are the subject of the motor_tiny_speed finding)
                start = r.choice(_SPEEDS)
                self.pending.append(f"{name}.set_speed({start!r})")
                if start == 0.0:
                    target = r.choice(_SPEEDS)
                else:
                    target = r.choice([v for v in _SPEEDS if v * start > 0])
                dur = r.choice([0, 10, 19, 20, 45, 100])
                tgt = repr(target)
                if r.random() < 0.3:
                    var = self.fresh("t")
                    self.pending.append(f"{var} = {tgt}")
                    tgt = var
                call = r.choice([f"{name}.ramp({tgt}, {dur})", f"{name}.ramp({tgt}, duration_ms={dur})", f"{name}.ramp(target_speed={tgt}, duration_ms={dur})"])
                dev["ramp_target"] = target
            else:
                dur = self.int_arg(0, 60, boundary=[0, 1, 30])
                sp = self.speed_arg()
                call = r.choice([f"{name}.run_for({dur}, {sp})", f"{name}.run_for({dur}, speed={sp})", f"{name}.run_for(duration_ms={dur}, speed={sp})"])
        for line in self.pending:
            self.emit(depth, line)
        self.emit(depth, call)
        self.probe(depth, name)

    def cond(self) -> str:
        r = self.rng
        pool = ["tick % 2 == 0", "tick % 2 == 1", "tick % 3 == 1", "tick > 1", "tick < 2", "tick == 0", "True", "False", "not tick % 2 == 0"]
        if self.pots:
            pool.append(f"{r.choice(self.pots)}.read() > {r.choice([0, 300, 511, 1022])}")
        return r.choice(pool)

    def stmt(self, depth: int, nest: int = 0) -> None:
        """One operation, or a control structure around operations: device commands must behave the
        same in every body (if / elif / else / for / while) the language allows them in."""

        r = self.rng
        if nest >= 2 or r.random() >= 0.3:
            self.op(depth)
            return
        body = lambda: [self.stmt(depth + 1, nest + 1) for _ in range(r.choice([1, 1, 2]))]  # noqa: E731
        kind = r.choice(["ifelse", "ifelse", "elif", "if", "for", "while"])
        if kind in ("if", "ifelse", "elif"):
            self.emit(depth, f"if {self.cond()}:")
            body()
            if kind == "elif":
                self.emit(depth, f"elif {self.cond()}:")
                body()
            if kind != "if":
                self.emit(depth, "else:")
                body()
        elif kind == "for":
            self.emit(depth, f"for {self.fresh('j')} in range({r.choice([1, 2, 2, 3])}):")
            body()
        else:
            w = self.fresh("w")
            self.emit(depth, f"{w} = 0")
            self.emit(depth, f"while {w} < {r.choice([1, 2, 2])}:")
            body()
            self.emit(depth + 1, f"{w} += 1")

    def generate(self) -> str:
        r = self.rng
        self.pending = []
        self.declare(0)
        in_loop_decls: List[str] = []
        hoistable = False  # loop-top declarations re-create the host object every pass; see engine E3
        for line in self.decl_lines:
            if hoistable and r.random() < 0.5:
                in_loop_decls.append(line)
            else:
                self.emit(0, line)
        n_setup = r.randint(0, 6)
        if in_loop_decls:
            # devices declared at the top of the loop body cannot be used in setup
            names_in_loop = {l.split(" = ")[0] for l in in_loop_decls}
            usable = {n: d for n, d in self.devices.items() if n not in names_in_loop}
        else:
            usable = dict(self.devices)
        all_devices = self.devices
        if usable:
            self.devices = usable
            self.emit(0, "tick = 0")
            for _ in range(n_setup):
                self.stmt(0)
        else:
            self.emit(0, "tick = 0")
        self.devices = all_devices
        self.emit(0, "while True:")
        for line in in_loop_decls:
            self.emit(1, line)
        self.emit(1, "tick = tick + 1")
        n_loop = r.randint(1, 7 if self.tier == "quick" else 14)
        for _ in range(n_loop):
            if r.random() < 0.15:
                self.emit(1, f"sleep({r.choice([0, 1, 5, 12])})")
            self.stmt(1)
        return "\n".join(self.lines) + "\n"

    @staticmethod
    def render(text: str, side: str) -> str:
        """Resolve out-of-range tokens: the board sees the raw value, the host the documented limit."""

        import re

        pick = (lambda m: m.group(1)) if side == "board" else (lambda m: m.group(2))
        return re.sub("\x01(-?\\d+)\x02(-?\\d+)\x03", pick, text)
