"""Call-shape enumeration for C08: every way Python's own binder accepts a call."""

from __future__ import annotations

import inspect
import itertools
from typing import Callable, Dict, Iterable, List, Optional, Sequence, Tuple


def shapes_for(sig: inspect.Signature, values: Dict[str, str], *, skip: Sequence[str] = (), perm_cap: int = 6) -> List[Tuple[List[str], List[Tuple[str, str]]]]:
    """All (positional args, keyword args in order) splits accepted by ``sig`` for the parameters in ``values``.

    ``values`` maps parameter name -> source text.  Parameters not in ``values`` must have defaults.
    Required parameters are always passed; optional ones are passed or omitted (all subsets).
    """

    params = [p for p in sig.parameters.values() if p.name not in skip and p.name != "self"]
    sig = sig.replace(parameters=params)
    names = [p.name for p in params if p.name in values]
    required = [p.name for p in params if p.default is inspect._empty and p.kind in (p.POSITIONAL_ONLY, p.POSITIONAL_OR_KEYWORD, p.KEYWORD_ONLY)]
    for r in required:
        if r not in values:
            raise ValueError(f"no value for required parameter {r}")
    optional = [n for n in names if n not in required]
    positional_ok = [p.name for p in params if p.kind in (p.POSITIONAL_ONLY, p.POSITIONAL_OR_KEYWORD)]
    out = []
    seen = set()
    for r in range(len(optional) + 1):
        for subset in itertools.combinations(optional, r):
            passed = [n for n in names if n in required or n in subset]
            # positional prefix: the first k parameters (in signature order) that are passed contiguously
            max_pos = 0
            for p in positional_ok:
                if p in passed and positional_ok.index(p) == max_pos:
                    max_pos += 1
                else:
                    break
            for k in range(max_pos + 1):
                pos = positional_ok[:k]
                kw = [n for n in passed if n not in pos]
                perms: Iterable[Tuple[str, ...]]
                if len(kw) <= 1:
                    perms = [tuple(kw)]
                else:
                    all_perms = list(itertools.permutations(kw))
                    step = max(1, len(all_perms) // perm_cap)
                    perms = all_perms[::step][:perm_cap]
                    if tuple(reversed(kw)) not in perms:
                        perms = list(perms) + [tuple(reversed(kw))]
                for perm in perms:
                    key = (tuple(pos), perm)
                    if key in seen:
                        continue
                    seen.add(key)
                    try:
                        sig.bind(*[0] * len(pos), **{n: 0 for n in perm})
                    except TypeError:
                        continue
                    out.append(([values[n] for n in pos], [(n, values[n]) for n in perm]))
    return out


def render_call(callee: str, shape: Tuple[List[str], List[Tuple[str, str]]]) -> str:
    pos, kw = shape
    parts = list(pos) + [f"{n}={v}" for n, v in kw]
    return f"{callee}({', '.join(parts)})"
