"""Name-free constant expressions that evaluate to a wanted value: they exercise the transpiler's
constant folder (_eval_const) at every site that folds name-free arguments."""

from __future__ import annotations

import random


def const_int_expr(rng: random.Random, v: int, depth: int = 0) -> str:
    """An expression without names whose Python value is the int ``v``."""

    if depth >= 2 or rng.random() < 0.2:
        return str(v) if v >= 0 else f"({v})"
    k = rng.randint(1, 9)
    form = rng.choice(["add", "sub", "mul", "floordiv", "mod", "chain", "chain", "tern", "minmax", "abs", "int", "len", "cmpsum"])
    sub = lambda x: const_int_expr(rng, x, depth + 1)  # noqa: E731
    if form == "add":
        text = f"({sub(v - k)} + {k})"
    elif form == "sub":
        text = f"({sub(v + k)} - {k})"
    elif form == "mul" and v % k == 0:
        text = f"({sub(v // k)} * {k})"
    elif form == "floordiv" and v >= 0:
        text = f"({v * k + rng.randint(0, k - 1)} // {k})"
    elif form == "mod" and 0 <= v:
        m = v + rng.randint(1, 9)
        text = f"({m * rng.randint(1, 5) + v} % {m})"
    elif form == "chain":
        a, b, c = (rng.randint(-5, 260) for _ in range(3))
        o1, o2 = rng.choice(["<", "<=", ">", ">=", "==", "!="]), rng.choice(["<", "<=", ">", ">=", "!="])
        other = v + rng.choice([-7, -1, 1, 13, 100])
        truth = eval(f"{a} {o1} {b} {o2} {c}")
        text = f"({sub(v)} if {a} {o1} {b} {o2} {c} else {other})" if truth else f"({other} if {a} {o1} {b} {o2} {c} else {sub(v)})"
    elif form == "tern":
        other = v + rng.choice([-3, 2, 50])
        a, b = rng.randint(0, 9), rng.randint(0, 9)
        cond = f"{a} < {b} and not {b} == {a + 1}"
        truth = eval(cond)
        text = f"({sub(v)} if {cond} else {other})" if truth else f"({other} if {cond} else {sub(v)})"
    elif form == "minmax":
        text = rng.choice([f"max({sub(v)}, {v - k})", f"min({v + k}, {sub(v)})", f"max({v - k}, {v - 1}, {sub(v)})"])
    elif form == "abs" and v >= 0:
        text = f"abs({-v})" if v else "abs(0)"
    elif form == "int":
        text = f"int({v}.{rng.randint(0, 9)})" if v >= 0 else f"int({v}.0)"
    elif form == "len" and 0 <= v <= 12:
        text = f'len("{"x" * v}")'
    elif form == "bool" and v in (0, 1):
        text = rng.choice(["True", "(2 > 1)"]) if v else rng.choice(["False", "(1 > 2)"])
    elif form == "cmpsum":
        text = f"({sub(v - 1)} + (3 < 4 <= 4))"
    else:
        text = str(v) if v >= 0 else f"({v})"
    try:
        ok = eval(text) == v and not isinstance(eval(text), float)
    except Exception:
        ok = False
    return text if ok else (str(v) if v >= 0 else f"({v})")


def const_float_expr(rng: random.Random, v: float) -> str:
    """An expression without names whose Python value is the (float32-exact) float ``v``."""

    form = rng.choice(["lit", "half", "sum", "tern", "neg"])
    if form == "half":
        text = f"({v * 2!r} * 0.5)"
    elif form == "sum":
        text = f"({v - 0.25!r} + 0.25)"
    elif form == "tern":
        a, b, c = (rng.randint(0, 20) for _ in range(3))
        truth = a <= b <= c
        other = v + 1.0
        text = f"({v!r} if {a} <= {b} <= {c} else {other!r})" if truth else f"({other!r} if {a} <= {b} <= {c} else {v!r})"
    elif form == "neg":
        text = f"(-({-v!r}))"
    else:
        text = repr(v)
    try:
        ok = eval(text) == v
    except Exception:
        ok = False
    return text if ok else repr(v)
