"""Meaning-preserving re-layouts of a script (C07).

Every variant is validated against CPython itself: ast.dump(parse(variant)) must equal
ast.dump(parse(original)); a variant that fails this is discarded (generator bug, not a finding).

Feature switches (names in ``avoid`` are switched off):
  layout_comment_lines     comment lines inserted at the indentation of their block (or deeper)
  layout_comment_dedent    comment lines at a smaller indentation than the block they sit in
  layout_trailing_comment  trailing comments on simple statements
  layout_header_comment    trailing comments on block headers (if/for/while/def/else/...)
  layout_blank_lines       blank and whitespace-only lines
  layout_indent_unit       per-block indentation unit of 1-8 spaces
  layout_tabs              tab indentation
  layout_trailing_ws       trailing whitespace
  layout_token_spacing     optional spaces around operators, commas, brackets
  layout_call_spacing      spaces between a callee and its '(' and around the '.' of a method call
"""

from __future__ import annotations

import ast
import io
import random
import tokenize
from typing import List, Optional, Sequence, Set, Tuple

LAYOUT_FEATURES = [
    "layout_comment_lines",
    "layout_comment_dedent",
    "layout_trailing_comment",
    "layout_header_comment",
    "layout_blank_lines",
    "layout_indent_unit",
    "layout_tabs",
    "layout_trailing_ws",
    "layout_token_spacing",
    "layout_call_spacing",
]

_WORDY = {tokenize.NAME, tokenize.NUMBER, tokenize.STRING}
_HEADER_KW = ("if ", "elif ", "else", "for ", "while ", "def ", "try", "except")


def _is_header(stripped: str) -> bool:
    return stripped.endswith(":") and stripped.startswith(_HEADER_KW)


def respace_line(rng: random.Random, code: str, call_spacing: bool) -> str:
    """Rebuild one logical line with random optional whitespace between tokens."""

    try:
        toks = list(tokenize.generate_tokens(io.StringIO(code + "\n").readline))
    except (tokenize.TokenError, SyntaxError, IndentationError):
        return code
    out: List[str] = []
    prev = None
    depth_f = 0
    fstart: Optional[int] = None
    i = 0
    items = []
    # fold every f-string into one atomic pseudo token
    fs_start = getattr(tokenize, "FSTRING_START", None)
    fs_end = getattr(tokenize, "FSTRING_END", None)
    for t in toks:
        if t.type in (tokenize.NEWLINE, tokenize.NL, tokenize.ENDMARKER, tokenize.INDENT, tokenize.DEDENT, tokenize.COMMENT):
            continue
        if fs_start is not None and t.type == fs_start:
            if depth_f == 0:
                fstart = t.start[1]
            depth_f += 1
            continue
        if fs_end is not None and t.type == fs_end:
            depth_f -= 1
            if depth_f == 0:
                items.append((tokenize.STRING, code[fstart : t.end[1]], fstart, t.end[1]))
            continue
        if depth_f > 0:
            continue
        items.append((t.type, t.string, t.start[1], t.end[1]))
    for typ, text, start, end in items:
        if prev is not None:
            ptyp, ptext, _ps, pend = prev
            orig_gap = start - pend
            both_wordy = ptyp in _WORDY and typ in _WORDY
            callish = text == "(" and ptyp == tokenize.NAME and ptext not in ("if", "elif", "while", "and", "or", "not", "in", "return", "else", "for", "is", "lambda")
            dotish = text == "." or ptext == "."
            if both_wordy:
                gap = max(1, orig_gap) if rng.random() < 0.6 else rng.randint(1, 3)
            elif (callish or dotish) and not call_spacing:
                gap = orig_gap
            elif rng.random() < 0.5:
                gap = orig_gap
            else:
                gap = rng.choice([0, 0, 1, 1, 2])
            # a number followed by '.' would change the token ("1 .real" vs "1.")
            if ptyp == tokenize.NUMBER and text == ".":
                gap = max(1, gap)
            if ptext == "." and typ == tokenize.NUMBER:
                gap = orig_gap
            out.append(" " * gap)
        out.append(text)
        prev = (typ, text, start, end)
    return "".join(out)


def relayout(rng: random.Random, script: str, avoid: Sequence[str] = ()) -> Tuple[str, List[str]]:
    """Return (variant, features used).  The input uses 4-space indentation, one statement per line."""

    off = set(avoid)
    used: Set[str] = set()

    def on(name: str, p: float) -> bool:
        if name not in off and rng.random() < p:
            used.add(name)
            return True
        return False

    lines = script.splitlines()
    levels = [(len(l) - len(l.lstrip(" "))) // 4 if l.strip() else None for l in lines]
    tabs = on("layout_tabs", 0.2)
    per_block = (not tabs) and on("layout_indent_unit", 0.6)
    base_unit = rng.randint(1, 8) if per_block else 4
    token_spacing = on("layout_token_spacing", 0.6)
    call_spacing = token_spacing and on("layout_call_spacing", 0.5)

    # indentation string per line: a stack of units, one per open block
    stack: List[str] = []
    out: List[str] = []
    comment_id = 0
    prev_level = 0
    for idx, line in enumerate(lines):
        if not line.strip():
            out.append(line)
            continue
        level = levels[idx]
        while len(stack) > level:
            stack.pop()
        while len(stack) < level:
            if tabs:
                stack.append("\t")
            elif per_block:
                stack.append(" " * rng.randint(1, 8))
            else:
                stack.append(" " * base_unit)
        indent = "".join(stack)
        code = line.strip()
        header = _is_header(code)
        if token_spacing and rng.random() < 0.7:
            code = respace_line(rng, code, call_spacing)
        # comment / blank lines before this line
        if on("layout_blank_lines", 0.12):
            out.append(rng.choice(["", "   ", "\t", indent]))
        if level > 0 and on("layout_comment_dedent", 0.08):
            comment_id += 1
            shallow = "" if rng.random() < 0.6 else " " * rng.randint(0, max(0, len(indent.expandtabs(4)) - 1))
            out.append(f"{shallow}# dedented note {comment_id}")
        if on("layout_comment_lines", 0.12):
            comment_id += 1
            extra = rng.choice(["", "", " ", "    "]) if not tabs else ""
            out.append(f"{indent}{extra}# note {comment_id}: while True: break")
        text = indent + code
        if header:
            if on("layout_header_comment", 0.15):
                text += rng.choice(["  # header note", " # x", "#tight"])
        elif on("layout_trailing_comment", 0.12):
            text += rng.choice(["  # trailing", " # 'quoted' \"text\"", "#tight"])
        if on("layout_trailing_ws", 0.1):
            text += rng.choice([" ", "   ", "\t"])
        out.append(text)
        prev_level = level
    if on("layout_blank_lines", 0.3):
        out.append("")
    if on("layout_comment_lines", 0.2):
        out.append("# the end")
    variant = "\n".join(out) + "\n"
    return variant, sorted(used)


def same_python(original: str, variant: str) -> bool:
    try:
        return ast.dump(ast.parse(original)) == ast.dump(ast.parse(variant))
    except (SyntaxError, ValueError):
        return False
