"""Seeded generator of well-defined Reduino scripts (core language subset).

The generator is *typed*: every name has one type for its whole life unless a typing
feature is switched on, every read is of a definitely-assigned name, loops are bounded by
construction, indices are in range by construction.  The CPython run remains the arbiter:
a script whose host run raises is discarded by the engine.

Feature switches (names listed in ``avoid`` are switched off):
  continue_stmt      `continue` inside loops
  int_true_div       `/` between two ints
  neg_floor_mod      `//` and `%` with a possibly negative left operand
  pow_op             `**`
  andor_values       `and`/`or` on non-boolean operands used for their value
  float_abs_minmax   abs/min/max of floats
  str_lit_concat     "a" + "b"
  str_newline        newline inside a string literal
  retype_var         a name re-assigned with a different type
  len_of_mutated     len(name) of a list/str that is mutated or re-assigned somewhere
  subscript_assign   xs[i] = v
  loopvar_after      reading the for variable after the loop
  branch_persist     name first assigned in a branch in one pass and read in a later pass
  list_alias         b = a for lists
  list_local         list first assigned inside the main loop / a helper
  str_param_passthrough a helper handing one of its own parameters on to another helper as a string (the caller's default-typed
                     translation requests an int variant of the callee whose string operations do not compile)
  forward_ref_nonint a helper calling a float-returning helper that is defined further down (typed int at that point)
  helper_mixed_sig   (retired: mixed signatures are generated through gen_poly_helper, whose bodies are valid for ints and floats)
  try_except         try/except blocks
  range_bound_mutation  for-range bound that mentions names the loop body assigns
  tuple_new_mixed    tuple assignment that introduces a new name next to an existing one
  stmt_call_nonint   helper called as a statement with float/str arguments
  nonint_list_append append()/remove() on a list of floats or strings
  eval_order         side-effecting helper call inside a larger expression (operand order)
  list_reassign_loop re-assigning a global list inside a loop / the main loop (temporary is leaked)
  fstring_nested_quotes  a string literal with quotes inside an f-string replacement field (PEP 701 nesting)
  double_eval        operand with a side effect (sensor read, helper call) inside a chained comparison,
                     abs(), min() or max() (the firmware evaluates it twice)
"""

from __future__ import annotations

import random
from dataclasses import dataclass, field
from typing import Dict, List, Optional, Sequence, Set, Tuple

ALL_FEATURES = [
    "continue_stmt",
    "int_true_div",
    "neg_floor_mod",
    "pow_op",
    "andor_values",
    "float_abs_minmax",
    "str_lit_concat",
    "str_newline",
    "retype_var",
    "len_of_mutated",
    "subscript_assign",
    "loopvar_after",
    "branch_persist",
    "list_alias",
    "list_local",
    "helper_mixed_sig",
    "forward_ref_nonint",
    "str_param_passthrough",
    "try_except",
    "range_bound_mutation",
    "double_eval",
    "tuple_new_mixed",
    "stmt_call_nonint",
    "nonint_list_append",
    "eval_order",
    "list_reassign_loop",
    "fstring_nested_quotes",
]

# no digits: a digit right after a float field would make "2.50"+"7" vs "2.5"+"7" ambiguous for the
# numeric-tolerant serial comparison
_STR_ALPHABET = "abcdefghijklmnopqrstuvwxyzABCDEFGHIJKLMNOPQRSTUVWXYZ _-+*/=<>()[]{}.,:;!?%&|^~'\"\\#$"
_FLOAT_LITS = [0.0, 0.25, 0.5, 0.75, 1.0, 1.25, 1.5, 2.0, 2.5, 3.0, 4.5, 7.25, 10.0, 12.5, 100.0]


@dataclass
class Helper:
    name: str
    params: List[Tuple[str, str]]
    ret: str  # 'int' | 'float' | 'bool' | 'str' | 'void'
    pure: bool


@dataclass
class GenOptions:
    max_stmts: int = 22
    max_depth: int = 3
    use_led: bool = True
    use_pot: bool = True
    use_button: bool = True
    use_lists: bool = True
    use_strings: bool = True
    use_floats: bool = True
    use_helpers: bool = True
    use_sleep: bool = True
    main_loop: bool = True
    probe_rate: float = 0.9
    typing_bias: bool = False
    steady_loop: bool = False  # main loop keeps the amount of live list/str data constant
    shrink_reassign: bool = False  # a list re-assigned with a shorter literal after len() uses: must be rejected (or be right)


class ProgGen:
    def __init__(self, rng: random.Random, avoid: Sequence[str] = (), opts: Optional[GenOptions] = None) -> None:
        self.rng = rng
        self.on: Set[str] = set(ALL_FEATURES) - set(avoid)
        self.opts = opts or GenOptions()
        self.counter = 0
        self.lines: List[str] = []
        self.helpers: List[Helper] = []
        self.mutated_lists: Set[str] = set()
        self.frozen_len: Set[str] = set()  # names whose len() was taken (must never be mutated)
        self.list_len: Dict[str, int] = {}  # minimal guaranteed length
        self.list_elem: Dict[str, str] = {}
        self.no_comp_var: Set[str] = set()
        self.cur_params: Set[str] = set()
        self.budget = self.opts.max_stmts
        self.features_used: Set[str] = set()
        self.in_helper = False
        self.global_names: Dict[str, str] = {}
        self.readonly: Set[str] = set()
        self.global_lists: Set[str] = set()
        self.len_safe: Set[str] = set()
        self.literal_items: Dict[str, List[int]] = {}
        self.sensor_budget = 1
        self.in_main = False
        self.steppers: List[Tuple[str, str]] = []
        self.cur_depth = 0
        self.nested_mutated: Set[str] = set()

    # ------------------------------------------------------------ utilities
    # identifiers that merely contain a word the line-based parser looks for (directive names, keywords, device
    # method names): they must be treated like any other name
    TRICKY_HELPER_NAMES = ["set_target", "on_target", "retarget", "sleeper", "printer", "forward", "iffy", "whiles", "define",
                           "is_pressed_n", "reader", "writer", "ranged", "breaker", "returned", "elsewhere", "imports", "led_on"]

    def fresh(self, prefix: str) -> str:
        self.counter += 1
        if prefix == "f" and self.rng.random() < 0.2:
            # the word sits at the end of the name (directly in front of the parenthesis of a call)
            return f"u{self.counter}_{self.rng.choice(self.TRICKY_HELPER_NAMES)}"
        return f"{prefix}{self.counter}"

    def chance(self, p: float) -> bool:
        return self.rng.random() < p

    def feature(self, name: str, p: float) -> bool:
        if name in self.on and self.chance(p):
            self.features_used.add(name)
            return True
        return False

    def emit(self, depth: int, text: str) -> None:
        self.lines.append("    " * depth + text)
        self.sensor_budget = 1  # a new statement starts

    def pick_var(self, env: Dict[str, str], typ: str) -> Optional[str]:
        names = sorted(n for n, t in env.items() if t == typ)
        return self.rng.choice(names) if names else None

    def pick_target(self, env: Dict[str, str], typ: str) -> Optional[str]:
        names = sorted(
            n for n, t in env.items() if t == typ and n not in self.readonly and n not in self.frozen_len
        )
        return self.rng.choice(names) if names else None

    # ------------------------------------------------------------ expressions
    def int_lit(self) -> str:
        r = self.rng.random()
        if r < 0.6:
            return str(self.rng.randint(0, 12))
        if r < 0.8:
            return str(self.rng.choice([0, 1, 2, 7, 10, 16, 100, 255]))
        return str(-self.rng.randint(1, 9))

    def int_expr(self, env, depth: int = 0, *, no_call: bool = False, nonneg: bool = False) -> str:
        r = self.rng
        if depth >= 3 or self.chance(0.3):
            v = self.pick_var(env, "int")
            if v is not None and self.chance(0.7) and not nonneg:
                return v
            if nonneg:
                return str(r.randint(0, 12))
            return self.int_lit()
        kind = r.choices(
            ["add", "sub", "mul", "mod", "floordiv", "minmax", "abs", "cast", "tern", "call", "index", "neg", "len", "sensor",
             "truediv", "pow", "andor", "boolsum"],
            weights=[5, 4, 3, 3, 2, 2, 1, 2, 2, 3, 2, 1, 1, 2, 1, 1, 1, 2],
        )[0]
        if nonneg and kind in ("sub", "neg", "call", "index", "tern", "cast", "truediv", "andor", "minmax"):
            kind = "mod"
        a = lambda **kw: self.int_expr(env, depth + 1, no_call=no_call, **kw)  # noqa: E731
        if kind == "add":
            return f"({a(nonneg=nonneg)} + {a(nonneg=nonneg)})"
        if kind == "boolsum":
            # Python: bools are ints (True + True == 2)
            b = lambda: self.bool_expr(env, depth + 1, no_call=no_call)  # noqa: E731
            form = r.choice(["sum", "sum3", "scaled", "mixed"])
            if form == "sum":
                return f"({b()} + {b()})"
            if form == "sum3":
                return f"(({b()} + {b()}) + {b()})"
            if form == "scaled":
                return f"({b()} * {r.randint(2, 9)})"
            return f"({b()} + {a(nonneg=nonneg)})"
        if kind == "sub":
            return f"({a()} - {a()})"
        if kind == "mul":
            return f"({a(nonneg=nonneg)} * {r.randint(0, 4)})"
        if kind == "mod":
            if self.feature("neg_floor_mod", 0.3) and not nonneg:
                return f"({a()} % {r.randint(2, 9)})"
            return f"(abs({self.int_expr(env, depth + 1, no_call=not self.feature('double_eval', 0.2))}) % {r.randint(2, 9)})"
        if kind == "floordiv":
            if self.feature("neg_floor_mod", 0.3) and not nonneg:
                return f"({a()} // {r.randint(2, 9)})"
            return f"(abs({self.int_expr(env, depth + 1, no_call=True)}) // {r.randint(2, 9)})"
        if kind == "minmax":
            fn = r.choice(["min", "max"])
            inner_no_call = not self.feature("double_eval", 0.3)
            args = [self.int_expr(env, depth + 1, no_call=inner_no_call or no_call) for _ in range(r.choice([2, 2, 3]))]
            return f"{fn}({', '.join(args)})"
        if kind == "abs":
            return f"abs({self.int_expr(env, depth + 1, no_call=not self.feature('double_eval', 0.2))})"
        if kind == "cast" and self.opts.use_floats and not self.in_main and not self.in_helper:
            # int() is a discontinuity: a float carried round the main loop (or handed to a helper from there) can
            # come arbitrarily close to an integer, where the device's 32-bit and CPython's 64-bit floats truncate
            # differently.  Casts are generated in run-once code only.
            return f"int({self.float_expr(env, depth + 1, no_call=no_call)})"
        if kind == "tern":
            return f"({a()} if {self.bool_expr(env, depth + 1, no_call=no_call)} else {a()})"
        if kind == "call" and not no_call:
            c = self.call_expr(env, "int", depth)
            if c:
                return c
        if kind == "index":
            e = self.index_expr(env, "int")
            if e:
                return e
        if kind == "neg":
            return f"(-{a()})"
        if kind == "len":
            e = self.len_expr(env)
            if e:
                return e
        if kind == "sensor" and not self.in_helper and not no_call:
            s = self.sensor_expr(env)
            if s:
                return s
        if kind == "pow" and self.feature("pow_op", 0.5):
            return f"({a(nonneg=True)} ** {r.randint(0, 3)})"
        if kind == "andor" and self.feature("andor_values", 0.5):
            return f"({a()} {r.choice(['and', 'or'])} {a()})"
        return f"({a(nonneg=nonneg)} + {r.randint(0, 5)})"

    def sensor_expr(self, env) -> Optional[str]:
        cands = [n for n, t in env.items() if t in ("pot", "button")]
        if not cands:
            return None
        if "eval_order" not in self.on:
            # two side-effecting reads in one statement meet C++'s unspecified operand order
            if self.sensor_budget <= 0:
                return None
            self.sensor_budget -= 1
        n = self.rng.choice(sorted(cands))
        return f"{n}.read()" if env[n] == "pot" else f"{n}.is_pressed()"

    def len_expr(self, env) -> Optional[str]:
        cands = sorted(n for n, t in env.items() if t in ("list", "str"))
        lits = ['"abc"', '"hello world"', '""', "[1, 2, 3]", "[4]"]
        if cands and self.chance(0.7):
            n = self.rng.choice(cands)
            straight_ok = (self.cur_depth == 0 and not self.in_helper and not self.in_main and n in self.literal_items
                           and n not in self.nested_mutated and n in self.global_lists)
            if n in self.mutated_lists and "len_of_mutated" not in self.on and not straight_ok:
                return None
            if "len_of_mutated" not in self.on:
                # the transpiler folds len(name) from a constant environment that ignores branches and
                # loops: safe are names bound once, at top level, to a literal - and, when len() itself is
                # evaluated by straight-line top-level code, literal lists that were only mutated there so far
                if straight_ok:
                    return f"len({n})"
                if n not in self.len_safe:
                    return None
                self.frozen_len.add(n)
            else:
                self.features_used.add("len_of_mutated")
            return f"len({n})"
        return f"len({self.rng.choice(lits)})"

    def index_expr(self, env, typ: str) -> Optional[str]:
        cands = sorted(n for n, t in env.items() if t == "list" and self.list_elem.get(n) == typ and self.list_len.get(n, 0) > 0)
        if not cands:
            return None
        n = self.rng.choice(cands)
        size = self.list_len[n]
        idx = self.rng.randint(-size, size - 1)
        return f"{n}[{idx}]"

    def float_lit(self) -> str:
        v = self.rng.choice(_FLOAT_LITS)
        if self.chance(0.2):
            v = -v
        return repr(float(v))

    def float_expr(self, env, depth: int = 0, *, no_call: bool = False) -> str:
        r = self.rng
        if depth >= 3 or self.chance(0.3):
            v = self.pick_var(env, "float")
            if v is not None and self.chance(0.7):
                return v
            return self.float_lit()
        kind = r.choices(
            ["add", "sub", "mulc", "divc", "fromint", "tern", "call", "index", "mix", "absminmax", "neg"],
            weights=[4, 3, 3, 2, 3, 1, 2, 1, 3, 1, 1],
        )[0]
        a = lambda: self.float_expr(env, depth + 1, no_call=no_call)  # noqa: E731
        if kind == "add":
            return f"({a()} + {a()})"
        if kind == "sub":
            return f"({a()} - {a()})"
        if kind == "mulc":
            return f"({a()} * {r.choice(['0.5', '2.0', '0.25', '1.5', '3.0'])})"
        if kind == "divc":
            return f"({a()} / {r.choice(['2.0', '4.0', '0.5', '8.0'])})"
        if kind == "fromint":
            return f"float({self.int_expr(env, depth + 1, no_call=no_call)})"
        if kind == "tern":
            return f"({a()} if {self.bool_expr(env, depth + 1, no_call=no_call)} else {a()})"
        if kind == "call" and not no_call:
            c = self.call_expr(env, "float", depth)
            if c:
                return c
        if kind == "index":
            e = self.index_expr(env, "float")
            if e:
                return e
        if kind == "mix":
            return f"({self.int_expr(env, depth + 1, no_call=no_call)} * {r.choice(['0.5', '0.25', '1.5'])})"
        if kind == "absminmax" and self.feature("float_abs_minmax", 0.5):
            fn = r.choice(["abs", "min", "max"])
            if fn == "abs":
                return f"abs({self.float_expr(env, depth + 1, no_call=True)})"
            return f"{fn}({self.float_expr(env, depth + 1, no_call=True)}, {self.float_expr(env, depth + 1, no_call=True)})"
        if kind == "neg":
            return f"(-{a()})"
        return f"({a()} + {self.float_lit()})"

    def bool_expr(self, env, depth: int = 0, *, no_call: bool = False) -> str:
        r = self.rng
        if depth >= 3 or self.chance(0.15):
            v = self.pick_var(env, "bool")
            if v is not None and self.chance(0.6):
                return v
            if self.chance(0.3):
                return r.choice(["True", "False"])
        kind = r.choices(
            ["cmpi", "cmpf", "and", "or", "not", "chain", "streq", "call", "btn", "var"],
            weights=[8, 3, 3, 3, 2, 2, 2, 1, 3, 1],
        )[0]
        op = r.choice(["<", "<=", ">", ">=", "==", "!="])
        if kind == "cmpi":
            return f"({self.int_expr(env, depth + 1, no_call=no_call)} {op} {self.int_expr(env, depth + 1, no_call=no_call)})"
        if kind == "cmpf" and self.opts.use_floats:
            op = r.choice(["<", "<=", ">", ">="])
            if self.in_main or self.in_helper:
                # a comparison is a discontinuity too (see the int() cast): inside the main loop a float is compared
                # with a constant that lies off the 1/8 grid on which loop-carried dyadic values settle
                return f"({self.float_expr(env, depth + 1, no_call=no_call)} {op} {r.choice(['0.3', '-1.7', '2.1', '10.3', '-20.9', '101.1'])})"
            return f"({self.float_expr(env, depth + 1, no_call=no_call)} {op} {self.float_expr(env, depth + 1, no_call=no_call)})"
        if kind in ("and", "or"):
            return f"({self.bool_expr(env, depth + 1, no_call=no_call)} {kind} {self.bool_expr(env, depth + 1, no_call=no_call)})"
        if kind == "not":
            return f"(not {self.bool_expr(env, depth + 1, no_call=no_call)})"
        if kind == "chain":
            o1, o2 = r.choice(["<", "<="]), r.choice(["<", "<="])
            inner = not self.feature("double_eval", 0.2)
            e = lambda: self.int_expr(env, depth + 1, no_call=inner)  # noqa: E731
            return f"({e()} {o1} {e()} {o2} {e()})"
        if kind == "streq" and self.opts.use_strings:
            v = self.pick_var(env, "str")
            if v is not None:
                return f"({v} {r.choice(['==', '!='])} {self.str_lit()})"
        if kind == "call" and not no_call:
            c = self.call_expr(env, "bool", depth)
            if c:
                return c
        if kind == "btn" and not self.in_helper and not no_call:
            sens = self.sensor_expr(env)
            if sens is not None:
                if sens.endswith(".is_pressed()"):
                    return r.choice([f"({sens} == 1)", f"({sens} == 0)"])
                return f"({sens} {r.choice(['<', '>'])} {r.choice([100, 512, 900])})"
        return f"({self.int_expr(env, depth + 1, no_call=no_call)} {op} {self.int_lit()})"

    def str_lit(self, *, allow_empty: bool = True) -> str:
        r = self.rng
        n = r.choice([0, 1, 2, 3, 5, 8, 12]) if allow_empty else r.choice([1, 2, 3, 5, 8])
        chars = [r.choice(_STR_ALPHABET) for _ in range(n)]
        if self.feature("str_newline", 0.1) and chars:
            chars[r.randrange(len(chars))] = "\n"
        text = "".join(chars)
        if text.startswith("@"):
            text = "a" + text[1:]
        return repr(text)

    def str_expr(self, env, depth: int = 0, *, no_call: bool = False, stored: bool = True) -> str:
        # stored=True: the value may later be measured (len) or compared, so it must not contain
        # float/bool renderings, which the oracle deliberately treats as equivalent ("2.5" ~ "2.50")
        r = self.rng
        if depth >= 2 or self.chance(0.25):
            v = self.pick_var(env, "str")
            if v is not None and self.chance(0.6):
                return v
            return self.str_lit()
        kind = r.choices(["fstr", "str", "cat_lit", "cat_str", "call", "tern", "lit", "litcat", "index"],
                         weights=[5, 3, 3, 2, 1, 1, 2, 1, 1])[0]
        if kind == "fstr":
            return self.fstring(env, depth, no_call=no_call, stored=stored)
        if kind == "str":
            t = "int" if stored else r.choice(["int", "float", "bool"] if self.opts.use_floats else ["int", "bool"])
            return f"str({self.expr(env, t, depth + 1, no_call=no_call)})"
        if kind == "cat_lit":
            v = self.pick_var(env, "str")
            if v is not None:
                return f"({v} + {self.str_lit()})"
            return self.fstring(env, depth, no_call=no_call, stored=stored)
        if kind == "cat_str":
            v = self.pick_var(env, "str")
            if v is not None:
                return f"(({v} + {r.choice(['":"', '" "', '"="', '"/"'])}) + str({self.int_expr(env, depth + 1, no_call=no_call)}))"
        if kind == "call" and not no_call:
            c = self.call_expr(env, "str", depth)
            if c:
                return c
        if kind == "tern":
            return f"({self.str_lit()} if {self.bool_expr(env, depth + 1, no_call=no_call)} else {self.str_lit()})"
        if kind == "litcat" and self.feature("str_lit_concat", 0.5):
            return f"({self.str_lit()} + {self.str_lit()})"
        if kind == "index":
            e = self.index_expr(env, "str")
            if e:
                return e
        return self.str_lit()

    def fstring(self, env, depth: int, *, no_call: bool = False, stored: bool = True) -> str:
        r = self.rng
        parts: List[str] = []
        for fi in range(r.randint(1, 3)):
            if fi > 0 or self.chance(0.6):
                # always a non-numeric separator between two fields
                lit = "".join(r.choice("abcxyz =:,") for _ in range(r.randint(1, 4)))
                parts.append(lit)
            typ = r.choice(["int", "int", "float", "bool", "str"] if self.opts.use_floats else ["int", "bool", "str"])
            if stored and typ in ("float", "bool"):
                typ = "int"
            if typ == "str":
                v = self.pick_var(env, "str")
                if v is None:
                    continue
                parts.append("{" + v + "}")
            else:
                v = self.pick_var(env, typ)
                if v is not None and self.chance(0.7):
                    parts.append("{" + v + "}")
                else:
                    parts.append("{" + self.expr(env, typ, depth + 2, no_call=no_call) + "}")
        if "fstring_nested_quotes" not in self.on:
            parts = [p for p in parts if not (p.startswith("{") and any(c in p for c in "\"'\\"))]
        else:
            if any(p.startswith("{") and '"' in p for p in parts):
                self.features_used.add("fstring_nested_quotes")
        body = "".join(parts)
        if not body or body.startswith("@"):
            body = "v=" + body
        # the expressions we embed never contain quotes or braces
        return 'f"' + body + '"'

    def expr(self, env, typ: str, depth: int = 0, *, no_call: bool = False) -> str:
        if typ == "int":
            return self.int_expr(env, depth, no_call=no_call)
        if typ == "float":
            return self.float_expr(env, depth, no_call=no_call)
        if typ == "bool":
            return self.bool_expr(env, depth, no_call=no_call)
        if typ == "str":
            return self.str_expr(env, depth, no_call=no_call)
        raise ValueError(typ)

    def call_expr(self, env, ret: str, depth: int) -> Optional[str]:
        cands = [h for h in self.helpers if h.ret == ret]
        if not self.feature("eval_order", 0.3):
            # a helper with side effects inside a larger expression meets C++'s unspecified operand order
            cands = [h for h in cands if h.pure]
        if self.in_helper:
            # a helper may call helpers defined before it, as long as they have no side effects
            cands = [h for h in cands if h.pure]
        if not cands:
            return None
        h = self.rng.choice(cands)
        args = []
        for _pname, ptype in h.params:
            arg_env = env
            if self.in_helper and ptype == "str" and not self.feature("str_param_passthrough", 0.5):
                # the caller is first translated with default (int) parameters: handing one of them on as a string
                # requests a callee variant that cannot compile (open finding KF-uncalled-helper)
                arg_env = {k: v for k, v in env.items() if k not in self.cur_params}
            args.append(self.expr(arg_env, ptype, depth + 2, no_call=True))
        return f"{h.name}({', '.join(args)})"

    # ------------------------------------------------------------ statements
    def probe(self, depth: int, env, names: Sequence[str]) -> None:
        if "mon" not in env:
            return
        for n in names:
            t = env.get(n)
            if t in ("int", "float", "bool", "str"):
                if self.chance(0.3) and t != "str":
                    self.emit(depth, f'mon.write(f"{n}={{{n}}}")')
                elif self.chance(0.1):
                    self.emit(depth, f"mon.write({self.str_expr(env, 1, no_call=True, stored=False)})")
                else:
                    self.emit(depth, f"mon.write({n})")
            elif t == "list" and self.list_len.get(n, 0) > 0:
                size = self.list_len[n]
                for idx in sorted({0, 1, size - 1} & set(range(size))):
                    self.emit(depth, f"mon.write({n}[{idx}])")
                self.emit(depth, f"mon.write({n}[-1])")

    def scalar_types(self) -> List[str]:
        ts = ["int", "int", "int", "bool"]
        if self.opts.use_floats:
            ts += ["float", "float"]
        if self.opts.use_strings:
            ts += ["str"]
        return ts

    def stmt_assign(self, depth: int, env, *, loop_ctx: bool) -> None:
        r = self.rng
        typ = r.choice(self.scalar_types())
        existing = self.pick_target(env, typ)
        if existing is not None and self.chance(0.55):
            name = existing
            if typ == "str":
                self.mutated_lists.add(name)
        else:
            name = self.fresh({"int": "n", "float": "x", "bool": "b", "str": "s"}[typ])
        if existing is not None and self.feature("retype_var", 0.08):
            other = r.choice([t for t in ("int", "float", "str", "bool") if t != typ])
            self.emit(depth, f"{name} = {self.expr(env, other)}")
            env[name] = other
            if not self.in_helper:
                self.global_names.setdefault(name, other)
            self.probe(depth, env, [name])
            return
        expr_text = self.expr(env, typ)
        self.emit(depth, f"{name} = {expr_text}")
        if typ == "str" and name != existing and depth == 0 and not self.in_helper and expr_text[:1] in "'\"" and expr_text.count(expr_text[0]) == 2 + expr_text.count("\\" + expr_text[0]):
            self.len_safe.add(name)
        env[name] = typ
        if self.chance(self.opts.probe_rate):
            self.probe(depth, env, [name])

    def stmt_aug(self, depth: int, env) -> None:
        r = self.rng
        typ = r.choice(["int", "int", "float", "str"])
        v = self.pick_target(env, typ)
        if v is None:
            return self.stmt_assign(depth, env, loop_ctx=False)
        if typ == "int":
            op = r.choice(["+=", "-=", "*="])
            if op == "*=":
                # keep magnitudes bounded over many passes (AVR-sized ints; signed overflow is undefined in C++)
                self.emit(depth, f"{v} = (abs({v}) * {r.randint(0, 3)}) % {r.choice([97, 251, 1000])}")
                if self.chance(self.opts.probe_rate):
                    self.probe(depth, env, [v])
                return
            rhs = self.int_expr(env, 1)
        elif typ == "float":
            op = r.choice(["+=", "-=", "*="])
            rhs = r.choice(["0.5", "2.0", "1.5"]) if op == "*=" else self.float_expr(env, 1)
        else:
            if self.opts.steady_loop and self.in_main:
                return self.stmt_assign(depth, env, loop_ctx=True)
            op = "+="
            self.mutated_lists.add(v)
            rhs = r.choice([self.str_lit(), f'("," + str({self.int_expr(env, 2)}))'])
        self.emit(depth, f"{v} {op} {rhs}")
        if typ == "str" and "mon" in env and self.chance(0.5):
            # right after an augmented assignment in the same block the name is run-time-only for the transpiler,
            # so len() of it is evaluated on the device (unlike len() before it or in an enclosing block, which is
            # the subject of the len_of_mutated finding)
            self.emit(depth, f"mon.write(len({v}))")
        if self.chance(self.opts.probe_rate):
            self.probe(depth, env, [v])

    def stmt_swap(self, depth: int, env) -> None:
        lists = sorted(n for n, t in env.items() if t == "list" and n not in self.frozen_len and n in self.global_lists)
        if len(lists) >= 2 and self.chance(0.25):
            # two declared lists exchanged through a tuple assignment
            a, b = self.rng.sample(lists, 2)
            if self.list_elem.get(a) == self.list_elem.get(b):
                self.emit(depth, f"{a}, {b} = {b}, {a}")
                self.list_len[a], self.list_len[b] = self.list_len.get(b, 0), self.list_len.get(a, 0)
                la, lb = self.literal_items.pop(a, None), self.literal_items.pop(b, None)
                if lb is not None:
                    self.literal_items[a] = lb
                if la is not None:
                    self.literal_items[b] = la
                for group in (self.mutated_lists, self.nested_mutated):
                    group.update((a, b))
                self.len_safe.discard(a)
                self.len_safe.discard(b)
                self.probe(depth, env, [a, b])
                return
        typ = self.rng.choice(["int", "float", "str", "bool"])
        names = sorted(n for n, t in env.items() if t == typ and n not in self.frozen_len and n not in self.readonly)
        if len(names) >= 2 and self.chance(0.7):
            a, b = self.rng.sample(names, 2)
            self.emit(depth, f"{a}, {b} = {b}, {a}")
            if typ == "str":
                self.mutated_lists.update((a, b))
            self.probe(depth, env, [a, b])
            return
        # tuple assignment, possibly introducing new names
        t1, t2 = self.rng.choice(["int", "float"]), self.rng.choice(["int", "bool"])
        if not self.opts.use_floats:
            t1 = "int"
        n1 = self.pick_target(env, t1) if self.chance(0.5) else None
        n2 = self.pick_target(env, t2) if self.chance(0.5) else None
        if (n1 is None) != (n2 is None) and not self.feature("tuple_new_mixed", 0.5):
            n1 = n2 = None  # all-new targets
        n1 = n1 or self.fresh("p")
        n2 = n2 or self.fresh("q")
        if n1 == n2:
            return
        self.emit(depth, f"{n1}, {n2} = {self.expr(env, t1, 1)}, {self.expr(env, t2, 1)}")
        env[n1] = t1
        env[n2] = t2
        self.probe(depth, env, [n1, n2])

    def stmt_list(self, depth: int, env, *, at_global: bool) -> None:
        r = self.rng
        lists = sorted(n for n, t in env.items() if t == "list")
        if not lists or self.chance(0.3):
            if not at_global and "list_local" not in self.on:
                return self.stmt_assign(depth, env, loop_ctx=False)
            if not at_global:
                self.features_used.add("list_local")
            name = self.fresh("xs")
            elem = r.choice(["int", "int", "float", "str"] if self.opts.use_floats and self.opts.use_strings else ["int"])
            comp_outer = None
            if self.chance(0.45) and elem in ("int", "float"):
                # every range() form, both step signs, spans that are not a multiple of the step, empty ranges
                form = r.choice(["n", "n", "ab", "pos", "pos", "neg", "neg", "neg", "edge"])
                if form == "n":
                    args = (r.randint(0, 5),)
                elif form == "ab":
                    a = r.randint(-3, 4)
                    args = (a, a + r.randint(0, 5))
                elif form == "pos":
                    a = r.randint(-3, 4)
                    args = (a, a + r.randint(0, 9), r.choice([1, 2, 3, 4]))
                elif form == "neg":
                    a = r.randint(0, 9)
                    args = (a, a - r.randint(0, 9), -r.choice([1, 2, 2, 3, 3, 5]))
                else:
                    args = r.choice([(3, 3), (5, 2), (0, 4, -1), (2, 0, -5), (0, 1, 7), (7, 0, -3), (9, 0, -2), (-1, -8, -4)])
                n = len(range(*args))
                v = "i"
                outer = sorted(k for k, t in env.items() if t in ("int", "float", "bool", "str") and k not in self.no_comp_var)
                if outer and self.chance(0.4):
                    # the comprehension variable is local to the comprehension: an outer name of any type survives
                    v = comp_outer = r.choice(outer)
                if elem == "int":
                    body = r.choice(["{v}", "{v} * 2", "{v} + 1", "({v} * {v}) % 7", "{v} - 3", "7"]).format(v=v)
                else:
                    body = r.choice(["{v} * 0.5", "{v} + 0.25", "{v} * 0.25 - 1.0"]).format(v=v)
                self.emit(depth, f"{name} = [{body} for {v} in range({', '.join(str(a) for a in args)})]")
            elif elem == "int" and self.chance(0.4):
                n = r.choice([1, 1, 2, 3, 4, 4])
                pool = [r.choice([0, 0, r.randint(0, 40)]) for _ in range(r.choice([1, 2, n]))]
                values = [r.choice(pool) for _ in range(n)]
                self.emit(depth, f"{name} = [{', '.join(str(v) for v in values)}]")
                self.literal_items[name] = values
            else:
                n = r.randint(1, 5)
                items = [self.expr(env, elem, 2, no_call=True) for _ in range(n)]
                self.emit(depth, f"{name} = [{', '.join(items)}]")
            env[name] = "list"
            self.list_len[name] = n
            self.list_elem[name] = elem
            if at_global:
                self.global_lists.add(name)
                self.len_safe.add(name)
            self.probe(depth, env, [name])
            if comp_outer is not None:
                keep = self.fresh("k")
                self.emit(depth, f"{keep} = {comp_outer}")
                env[keep] = env[comp_outer]
                self.probe(depth, env, [keep, comp_outer])
            return
        name = r.choice(lists)
        elem = self.list_elem[name]
        kind = r.choices(["append_remove", "append", "index_probe", "assign_idx", "reassign", "alias", "remove_append"],
                         weights=[3, 3, 3, 1, 2, 1, 3])[0]
        frozen = name in self.frozen_len
        if self.opts.steady_loop and self.in_main and kind == "append":
            kind = r.choice(["append_remove", "remove_append"])
        if kind == "remove_append" and name in self.literal_items and not frozen:
            # the multiset of the list is invariant under every operation generated for it, so a literal
            # element is always present: remove it (possibly emptying the list) and put it back
            v = r.choice(self.literal_items[name])
            self.emit(depth, f"{name}.remove({v})")
            if depth == 0 and not self.in_main and not self.in_helper and self.chance(0.5) and "mon" in env and self.list_len.get(name, 0) > 1 and name not in self.nested_mutated:
                # straight-line top-level code: the transpile-time length is exact here
                self.emit(depth, f"mon.write({name}[len({name}) - 1])")
            self.emit(depth, f"{name}.append({v})")
            self.mutated_lists.add(name)
            if depth > 0 or self.in_main or self.in_helper:
                self.nested_mutated.add(name)
            self.probe(depth, env, [name])
            return
        if kind in ("append", "append_remove") and not frozen and (elem == "int" or self.feature("nonint_list_append", 0.5)):
            if elem == "int":
                val = str(r.randint(50, 99))
            elif elem == "float":
                val = repr(float(r.randint(50, 99)) + 0.5)
            else:
                val = repr("zz" + str(r.randint(0, 9)))
            how = r.random()
            same_typed = sorted(k for k, t in env.items() if t == elem and k not in self.no_comp_var)
            if how < 0.25 and self.list_len.get(name, 0) > 0:
                # an element of the list itself: the argument refers into the buffer that append/remove re-allocate
                val = f"{name}[{r.choice([0, -1, self.list_len[name] - 1])}]"
            elif how < 0.45 and same_typed:
                val = r.choice(same_typed)
            self.emit(depth, f"{name}.append({val})")
            self.mutated_lists.add(name)
            if depth > 0 or self.in_main or self.in_helper:
                self.nested_mutated.add(name)
            if kind == "append_remove":
                self.emit(depth, f"mon.write({name}[-1])" if "mon" in env else "pass")
                if val.startswith(name + "["):
                    val = f"{name}[-1]"  # the value just appended (removes its first occurrence)
                self.emit(depth, f"{name}.remove({val})")
            # guaranteed length never shrinks below the recorded minimum: we only remove what we appended
            self.probe(depth, env, [name])
            return
        if kind == "assign_idx" and self.feature("subscript_assign", 0.5) and self.list_len.get(name, 0) > 0 and elem == "int":
            idx = r.randint(0, self.list_len[name] - 1)
            self.emit(depth, f"{name}[{idx}] = {self.int_expr(env, 2)}")
            self.probe(depth, env, [name])
            return
        if kind == "reassign" and not frozen and elem == "int" and (at_global or (name in self.global_lists and self.feature("list_reassign_loop", 0.8))):
            n = self.list_len[name]
            items = [self.int_expr(env, 2, no_call=True) for _ in range(n)]
            # only legal when the transpiler's tracked length equals n, i.e. never appended
            if name not in self.mutated_lists:
                self.literal_items.pop(name, None)
                self.emit(depth, f"{name} = [{', '.join(items)}]")
                self.mutated_lists.add(name)
                self.probe(depth, env, [name])
                return
        if kind == "alias" and self.feature("list_alias", 0.5):
            other = self.fresh("ys")
            self.emit(depth, f"{other} = {name}")
            env[other] = "list"
            self.list_len[other] = self.list_len.get(name, 0)
            self.list_elem[other] = elem
            self.probe(depth, env, [other])
            return
        self.probe(depth, env, [name])

    def stmt_device(self, depth: int, env) -> None:
        r = self.rng
        leds = sorted(n for n, t in env.items() if t == "led")
        if leds and self.chance(0.7):
            led = r.choice(leds)
            op = r.choice(["on", "off", "toggle", "set", "set"])
            if op == "set":
                self.emit(depth, f"{led}.set_brightness(abs({self.int_expr(env, 1, no_call=True)}) % 256)")
            else:
                self.emit(depth, f"{led}.{op}()")
            return
        if self.opts.use_sleep:
            if self.chance(0.5):
                from dst.gen.constexpr import const_int_expr

                ms = r.choice([0, 1, 2, 5, 10, 25])
                self.emit(depth, f"sleep({const_int_expr(r, ms) if self.chance(0.5) else ms})")
            else:
                self.emit(depth, f"sleep(abs({self.int_expr(env, 1, no_call=True)}) % 20)")

    def stmt_if(self, depth: int, env, ctx) -> None:
        r = self.rng
        cond = self.bool_expr(env)
        self.emit(depth, f"if {cond}:")
        branches = [dict(env)]
        self.block(depth + 1, branches[0], ctx, r.randint(1, 3))
        n_elif = r.choice([0, 0, 1, 2]) if depth < 2 else 0
        for _ in range(n_elif):
            self.emit(depth, f"elif {self.bool_expr(env)}:")
            e = dict(env)
            self.block(depth + 1, e, ctx, r.randint(1, 2))
            branches.append(e)
        has_else = self.chance(0.5)
        if has_else:
            self.emit(depth, "else:")
            e = dict(env)
            self.block(depth + 1, e, ctx, r.randint(1, 3))
            branches.append(e)
        # definitely assigned afterwards: names assigned (with one type) in every branch
        if has_else:
            common = set(branches[0])
            for b in branches[1:]:
                common &= set(b)
            for n in sorted(common):
                types = {b[n] for b in branches}
                if n not in env and len(types) == 1:
                    env[n] = types.pop()
        # type changes of pre-existing names inside branches would make the name's type path dependent
        for b in branches:
            for n, t in b.items():
                if n in env and env[n] != t:
                    env[n] = "unknown"

    def stmt_while(self, depth: int, env, ctx) -> None:
        r = self.rng
        i = self.fresh("i")
        limit = r.choice([str(r.randint(0, 4)), f"(abs({self.int_expr(env, 2, no_call=True)}) % 5)"])
        self.emit(depth, f"{i} = 0")
        env[i] = "int"
        self.readonly.add(i)
        self.emit(depth, f"while {i} < {limit}:")
        inner = dict(env)
        sub = dict(ctx, in_loop=True, loop_guard=i)
        # increment first so that `continue` cannot skip it
        self.emit(depth + 1, f"{i} += 1")
        self.block(depth + 1, inner, sub, r.randint(1, 3))
        self._merge_loop_env(env, inner)

    def stmt_for(self, depth: int, env, ctx) -> None:
        r = self.rng
        i = self.fresh("k")
        if self.chance(0.5):
            limit = str(r.randint(0, 4))
            if self.chance(0.4):
                from dst.gen.constexpr import const_int_expr

                limit = const_int_expr(r, int(limit))
        elif self.feature("range_bound_mutation", 0.5):
            # the bound mentions names the body may change: Python evaluates range() once
            limit = f"(abs({self.int_expr(env, 2, no_call=True)}) % 5)"
        else:
            m = self.fresh("m")
            self.emit(depth, f"{m} = (abs({self.int_expr(env, 2, no_call=True)}) % 5)")
            env[m] = "int"
            self.readonly.add(m)
            limit = m
        self.emit(depth, f"for {i} in range({limit}):")
        inner = dict(env)
        inner[i] = "int"
        self.readonly.add(i)
        sub = dict(ctx, in_loop=True)
        self.block(depth + 1, inner, sub, r.randint(1, 3))
        self._merge_loop_env(env, inner, drop=i)
        if self.feature("loopvar_after", 0.1) and "mon" in env and limit.isdigit() and int(limit) > 0:
            self.emit(depth, f"mon.write({i})")

    def _merge_loop_env(self, env, inner, drop: Optional[str] = None) -> None:
        # a loop body may run zero times: nothing new is definitely assigned afterwards
        for n, t in inner.items():
            if n in env and env[n] != t:
                env[n] = "unknown"

    def stmt_break_continue(self, depth: int, env, ctx) -> None:
        if not ctx.get("in_loop"):
            return self.stmt_assign(depth, env, loop_ctx=False)
        r = self.rng
        kw = "break"
        if self.feature("continue_stmt", 0.5):
            kw = "continue"
        self.emit(depth, f"if {self.bool_expr(env, 1)}:")
        if "mon" in env and self.chance(0.5):
            self.emit(depth + 1, f'mon.write("{kw}")')
        self.emit(depth + 1, kw)

    def stmt_call(self, depth: int, env) -> None:
        voids = [h for h in self.helpers if h.ret == "void"]
        impure = [h for h in self.helpers if h.ret != "void" and not h.pure]
        if impure and not self.in_helper and self.chance(0.5):
            h = self.rng.choice(impure)
            args = [self.expr(env, t, 2, no_call=True) for _n, t in h.params]
            name = self.fresh({"int": "n", "float": "x", "bool": "b", "str": "s"}[h.ret])
            self.emit(depth, f"{name} = {h.name}({', '.join(args)})")
            env[name] = h.ret
            self.probe(depth, env, [name])
            return
        if voids and not self.in_helper:
            h = self.rng.choice(voids)
            args = [self.expr(env, t, 2, no_call=True) for _n, t in h.params]
            self.emit(depth, f"{h.name}({', '.join(args)})")
            return
        self.stmt_assign(depth, env, loop_ctx=False)

    def stmt_try(self, depth: int, env, ctx) -> None:
        if not self.feature("try_except", 0.5):
            return self.stmt_assign(depth, env, loop_ctx=False)
        self.emit(depth, "try:")
        inner = dict(env)
        self.block(depth + 1, inner, ctx, self.rng.randint(1, 2))
        handlers = self.rng.choice([["Exception"], ["Exception"], ["ValueError", "Exception"], ["ZeroDivisionError", "ValueError", "Exception"]])
        for k, exc in enumerate(handlers):
            self.emit(depth, f"except {exc}:")
            if "mon" in env and self.chance(0.6):
                self.emit(depth + 1, f'mon.write("handler {k}")')
                if self.chance(0.4):
                    self.emit(depth + 1, f"sleep({self.rng.choice([1, 5])})")
            else:
                self.emit(depth + 1, "pass")

    # ---- typing swarm (C02): names that get their type inside a branch or loop, mixed int/float flows
    def stmt_hoist_if(self, depth: int, env) -> None:
        r = self.rng
        typ = r.choice(["float", "float", "str", "bool", "int"] if self.opts.use_strings else ["float", "bool", "int"])
        name = self.fresh({"int": "n", "float": "x", "bool": "b", "str": "s"}[typ])
        if typ == "float" and self.chance(0.3):
            # the name starts as an int in each arm and is widened by an augmented assignment: the hoisted
            # declaration has to take the final type
            self.emit(depth, f"if {self.bool_expr(env)}:")
            self.emit(depth + 1, f"{name} = {self.int_expr(env, 1, no_call=True)}")
            self.emit(depth + 1, f"{name} {r.choice(['+= 0.5', '*= 1.25', '-= 0.25'])}")
            self.emit(depth, "else:")
            self.emit(depth + 1, f"{name} = {self.int_expr(env, 1, no_call=True)}")
            self.emit(depth + 1, f"{name} {r.choice(['+= 1.5', '*= 0.5'])}")
            env[name] = typ
            self.probe(depth, env, [name])
            return
        self.emit(depth, f"if {self.bool_expr(env)}:")
        self.emit(depth + 1, f"{name} = {self.expr(env, typ, 1)}")
        n_elif = r.choice([0, 0, 1])
        for _ in range(n_elif):
            self.emit(depth, f"elif {self.bool_expr(env, 1)}:")
            self.emit(depth + 1, f"{name} = {self.expr(env, typ, 1)}")
        self.emit(depth, "else:")
        self.emit(depth + 1, f"{name} = {self.expr(env, typ, 1)}")
        env[name] = typ
        self.probe(depth, env, [name])

    def stmt_hoist_loop(self, depth: int, env) -> None:
        r = self.rng
        typ = r.choice(["float", "float", "str", "int", "bool"] if self.opts.use_strings else ["float", "int"])
        name = self.fresh({"int": "n", "float": "x", "bool": "b", "str": "s"}[typ])
        k = self.fresh("k")
        count = r.randint(1, 4)
        self.readonly.add(k)
        self.emit(depth, f"for {k} in range({count}):")
        inner = dict(env)
        inner[k] = "int"
        self.emit(depth + 1, f"{name} = {self.expr(inner, typ, 1)}")
        if typ == "float" and self.chance(0.5):
            self.emit(depth + 1, f"{name} = ({name} + ({k} * 0.25))")
        # a literal, positive trip count: the name is definitely assigned afterwards
        env[name] = typ
        self.probe(depth, env, [name])

    def stmt_mixed_expr(self, depth: int, env) -> None:
        r = self.rng
        name = self.fresh("x")
        form = r.choice(["tern", "tern_bool", "arith", "cast", "cmp", "list"])
        i1, i2 = self.int_expr(env, 2), self.int_expr(env, 2)
        f1 = self.float_expr(env, 2)
        if form == "tern_bool":
            # a bool arm and a float arm: the join is float. Python keeps True/False in the bool case, so the name is
            # only observed through an addition (True + 0.25 == 1.25 on both sides) and not reused afterwards.
            b1 = self.bool_expr(env, 2)
            arms = (b1, f1) if self.chance(0.5) else (f1, b1)
            self.emit(depth, f"{name} = ({arms[0]} if {self.bool_expr(env, 1)} else {arms[1]})")
            if "mon" in env:
                self.emit(depth, f"mon.write({name} + 0.25)")
        elif form == "tern":
            self.emit(depth, f"{name} = ({i1} if {self.bool_expr(env, 1)} else {f1})")
            env[name] = "float"
        elif form == "arith":
            self.emit(depth, f"{name} = (({i1} * 0.5) + {i2}) - {f1}")
            env[name] = "float"
        elif form == "cast":
            self.emit(depth, f"{name} = float({i1}) + int({f1})")
            env[name] = "float"
        elif form == "cmp":
            name = self.fresh("b")
            self.emit(depth, f"{name} = ({i1} < {f1}) or ({f1} <= {i2})")
            env[name] = "bool"
        else:
            name = self.fresh("xs")
            self.emit(depth, f"{name} = [{i1}, {f1}, {i2}]")
            env[name] = "list"
            self.list_len[name] = 3
            self.list_elem[name] = "float"
        self.probe(depth, env, [name])

    def block(self, depth: int, env, ctx, count: int) -> None:
        r = self.rng
        made = 0
        for _ in range(count):
            self.cur_depth = depth
            if self.budget <= 0 and made > 0:
                break
            self.budget -= 1
            made += 1
            nested_ok = depth < self.opts.max_depth
            kinds = ["assign", "assign", "assign", "aug", "aug", "swap", "device"]
            weights = [4, 3, 2, 3, 2, 2, 3]
            if self.opts.use_lists:
                kinds.append("list"); weights.append(3)
            if self.opts.typing_bias and nested_ok:
                kinds += ["hoist_if", "hoist_loop", "mixed_expr"]
                weights += [4, 3, 4]
            if nested_ok:
                kinds += ["if", "while", "for"]
                weights += [4, 2, 3]
            if self.steppers and not self.in_helper:
                kinds.append("busy"); weights.append(2)
            if depth == 0 and self.opts.use_lists and not self.in_helper and not self.in_main:
                kinds.append("list_straight"); weights.append(2)
                kinds.append("list_copy_growth"); weights.append(1)
            if ctx.get("in_loop"):
                kinds.append("brk"); weights.append(2)
            if self.helpers and not self.in_helper:
                kinds.append("call"); weights.append(2)
            if nested_ok and "try_except" in self.on:
                kinds.append("try"); weights.append(1)
            kind = r.choices(kinds, weights=weights)[0]
            if kind == "assign":
                self.stmt_assign(depth, env, loop_ctx=bool(ctx.get("in_loop")))
            elif kind == "aug":
                self.stmt_aug(depth, env)
            elif kind == "swap":
                self.stmt_swap(depth, env)
            elif kind == "device":
                self.stmt_device(depth, env)
            elif kind == "list":
                self.stmt_list(depth, env, at_global=(depth == 0 and not self.in_helper))
            elif kind == "if":
                self.stmt_if(depth, env, ctx)
            elif kind == "while":
                self.stmt_while(depth, env, ctx)
            elif kind == "for":
                self.stmt_for(depth, env, ctx)
            elif kind == "brk":
                self.stmt_break_continue(depth, env, ctx)
            elif kind == "call":
                self.stmt_call(depth, env)
            elif kind == "try":
                self.stmt_try(depth, env, ctx)
            elif kind == "busy":
                self.stmt_busy_wait(depth, env)
            elif kind == "list_straight":
                self.stmt_list_straight(depth, env)
            elif kind == "list_copy_growth":
                self.stmt_list_copy_growth(depth, env)
            elif kind == "hoist_if":
                self.stmt_hoist_if(depth, env)
            elif kind == "hoist_loop":
                self.stmt_hoist_loop(depth, env)
            elif kind == "mixed_expr":
                self.stmt_mixed_expr(depth, env)
        if made == 0:
            self.emit(depth, "pass")

    # ------------------------------------------------------------ helpers
    def gen_helper(self, genv) -> None:
        r = self.rng
        name = self.fresh("f")
        nparams = r.randint(0, 3)
        params = [(self.fresh("a"), r.choice(["int", "int", "float", "bool", "str"] if self.opts.use_floats else ["int", "bool"]))
                  for _ in range(nparams)]
        # a parameter may legally shadow a top-level name of the same type
        shadowed = []
        for i, (pn, pt) in enumerate(params):
            cands = sorted(n for n, t in genv.items() if t == pt and n not in [q for q, _t in params] and n not in shadowed)
            if cands and self.chance(0.3):
                params[i] = (r.choice(cands), pt)
                shadowed.append(params[i][0])
        ret = r.choice(["int", "int", "float", "bool", "str", "void"] if self.opts.use_floats else ["int", "bool", "void"])
        if not self.opts.use_strings:
            params = [(n, "int" if t == "str" else t) for n, t in params]
            if ret == "str":
                ret = "int"
        if ret == "void" and not self.feature("stmt_call_nonint", 0.5):
            # a call used as a statement never registers its argument types with the transpiler
            params = [(n, t if t in ("int", "bool") else "int") for n, t in params]
        pure = ret != "void" and self.chance(0.6)
        self.emit(0, f"def {name}({', '.join(n for n, _t in params)}):")
        self.cur_params = {n for n, _t in params}
        env = {n: t for n, t in genv.items() if t in ("int", "float", "bool", "str")}
        # helpers only read globals; writes need `global`
        writable = None
        if not pure and self.chance(0.4):
            cands = sorted(n for n, t in genv.items() if t == "int" and n not in [q for q, _t in params])
            if cands:
                writable = r.choice(cands)
                self.emit(1, f"global {writable}")
        local_env = dict(env)
        for n, t in params:
            local_env[n] = t
        widened = [n for n, t in params if t == "int" and self.opts.use_floats and self.chance(0.15) and n not in genv]
        saved_len_safe = set(self.len_safe)
        saved_frozen = set(self.frozen_len)
        self.len_safe = (self.len_safe - {n for n, _t in params}) | {n for n, t in params if t == "str"}
        self.in_helper = True
        saved_budget = self.budget
        self.budget = 4
        body_env = dict(local_env)
        if "mon" in genv and not pure:
            body_env["mon"] = "mon"
        for n in widened:
            # an int parameter widened in place: callers keep passing ints, the variant's parameter becomes float
            self.emit(1, f"{n} {r.choice(['+= 0.5', '*= 1.25'])}")
            body_env[n] = "float"
        # locals: fresh names only (assigning to a global name would make it local in Python)
        protected = set(env)
        for _ in range(r.randint(0, 3)):
            typ = r.choice(["int", "float", "bool"] if self.opts.use_floats else ["int", "bool"])
            lname = self.fresh("t")
            self.emit(1, f"{lname} = {self.expr(body_env, typ, 1, no_call=True)}")
            body_env[lname] = typ
            if typ == "float" and self.chance(0.3):
                # a later right-hand element reads an earlier target whose type changes in this very statement: all
                # right-hand sides are evaluated (and typed) before any target is bound.  Straight-line helper code
                # only (no hoisted declaration); the re-typed name is dead afterwards.
                keep = self.fresh("t")
                self.emit(1, f"{lname}, {keep} = {self.int_expr(body_env, 1, no_call=True)}, {lname}")
                del body_env[lname]
                body_env[keep] = "float"
                lname = keep
            if "mon" in body_env and self.chance(0.5):
                self.emit(1, f"mon.write({lname})")
        if writable is not None:
            self.emit(1, f"{writable} = (abs({writable}) + {r.randint(1, 3)}) % 50")
        if ret != "void" and self.chance(0.35):
            # a local that gets its value in both arms of an if/else (hoisted by the transpiler); the name comes
            # from a small pool so that different helpers reuse it with different types
            local = r.choice(["out", "res", "val", "acc"])
            if local not in body_env and local not in genv:
                if self.chance(0.6):
                    self.emit(1, f"if {self.bool_expr(body_env, 1, no_call=True)}:")
                    self.emit(2, f"{local} = {self.expr(body_env, ret, 1, no_call=True)}")
                    self.emit(1, "else:")
                    self.emit(2, f"{local} = {self.expr(body_env, ret, 1, no_call=True)}")
                else:
                    # first assigned inside a loop that always runs: hoisted out of the loop by the transpiler
                    k = self.fresh("k")
                    loop_kind = r.choice(["while", "for"])
                    if loop_kind == "while":
                        self.emit(1, f"{k} = 0")
                        self.emit(1, f"while {k} < {r.choice([1, 2, 3])}:")
                        self.emit(2, f"{local} = {self.expr(body_env, ret, 1, no_call=True)}")
                        self.emit(2, f"{k} += 1")
                    else:
                        self.emit(1, f"for {k} in range({r.choice([1, 2, 3])}):")
                        self.emit(2, f"{local} = {self.expr(body_env, ret, 1, no_call=True)}")
                self.emit(1, f"return {local}")
                self.in_helper = False
                self.budget = saved_budget
                self.len_safe = saved_len_safe
                self.frozen_len = saved_frozen
                self.helpers.append(Helper(name, params, ret, pure))
                return
        if ret == "void":
            if "mon" in body_env:
                self.emit(1, f"mon.write({self.str_expr(body_env, 1, no_call=True)})")
            if self.chance(0.3):
                self.emit(1, f"if {self.bool_expr(body_env, 1, no_call=True)}:")
                self.emit(2, "return")
                if "mon" in body_env:
                    self.emit(1, 'mon.write("tail")')
            elif "mon" not in body_env:
                self.emit(1, "pass")
        else:
            if self.chance(0.4):
                self.emit(1, f"if {self.bool_expr(body_env, 1, no_call=True)}:")
                early_type = "int" if (ret == "float" and self.opts.typing_bias and self.chance(0.6)) else ret
                self.emit(2, f"return {self.expr(body_env, early_type, 1, no_call=True)}")
            self.emit(1, f"return {self.expr(body_env, ret, 1, no_call=not self.chance(0.5))}")
        self.in_helper = False
        self.budget = saved_budget
        self.len_safe = saved_len_safe
        self.frozen_len = saved_frozen
        self.helpers.append(Helper(name, params, ret, pure))
        _ = protected

    # ---- helpers whose calls appear only in places other than an assignment ------------------------
    def gen_context_helper(self, env, in_loop: bool = False) -> List[Tuple[int, str]]:
        """A pure helper with a non-int parameter whose *only* calls sit in a condition, an argument, an f-string
        field or a list literal; returns the (depth, line) statements that use it."""

        r = self.rng
        name = self.fresh("q")
        kind = r.choice(["float", "float", "str", "bool", "mixed"])
        if kind == "float":
            a, b = self.fresh("a"), self.fresh("a")
            self.emit(0, f"def {name}({a}, {b}):")
            self.emit(1, f"return {a} * {b} + {r.choice(['0.25', '1', '0.5'])}")
            args, ret = f"{r.randint(1, 4)}, {r.choice(['0.5', '1.25', '2.75'])}", "float"
        elif kind == "str":
            a = self.fresh("a")
            self.emit(0, f"def {name}({a}):")
            self.emit(1, f'return {a} + "{r.choice(["!", "_x", "k"])}"')
            args, ret = f'"{r.choice(["ab", "q", "hello"])}"', "str"
        elif kind == "bool":
            a, b = self.fresh("a"), self.fresh("a")
            self.emit(0, f"def {name}({a}, {b}):")
            self.emit(1, f"if {a}:")
            self.emit(2, f"return {b} + 0.5")
            self.emit(1, f"return {b}")
            args, ret = f"{r.choice(['True', 'False'])}, {r.choice(['1.5', '2.25'])}", "float"
        else:
            a, b, c = self.fresh("a"), self.fresh("a"), self.fresh("a")
            self.emit(0, f"def {name}({a}, {b}, {c}):")
            self.emit(1, f"if {c}:")
            self.emit(2, f"return {a} + {b}")
            self.emit(1, f"return {a} - {b}")
            args, ret = f"{r.randint(0, 5)}, {r.choice(['0.5', '3.75'])}, {r.choice(['True', 'False'])}", "float"
        call = f"{name}({args})"
        lit = '"ab!"' if ret == "str" else r.choice(["1.0", "2", "0.75"])
        cmp = f"{call} == {lit}" if ret == "str" else f"{call} {r.choice(['>', '<', '>=', '<='])} {lit}"
        how = r.choice(["if", "if", "while", "write", "fstring", "sleep", "listlit", "ternary", "elif", "and"])
        k = self.fresh("k")
        if how == "if":
            return [(0, f"if {cmp}:"), (1, 'mon.write("c-yes")'), (0, "else:"), (1, 'mon.write("c-no")')]
        if how == "elif":
            return [(0, "if False:"), (1, 'mon.write("c-never")'), (0, f"elif {cmp}:"), (1, 'mon.write("c-yes")'), (0, "else:"), (1, 'mon.write("c-no")')]
        if how == "and":
            return [(0, f"if True and {cmp}:"), (1, 'mon.write("c-yes")'), (0, "else:"), (1, 'mon.write("c-no")')]
        if how == "while":
            return [(0, f"{k} = 0"), (0, f"while {k} < 2 and {cmp}:"), (1, f"{k} += 1"), (0, f"mon.write({k})")]
        if how == "write":
            return [(0, f"mon.write({call})")]
        if how == "fstring":
            return [(0, f'mon.write(f"v={{{call}}};")')]
        if how == "sleep" and ret != "str":
            return [(0, f"sleep({call})"), (0, 'mon.write("slept")')]
        if how == "listlit" and ret != "str" and (not in_loop or "list_local" in self.on):
            return [(0, f"{k}s = [{call}, {call}]"), (0, f"mon.write({k}s[0])"), (0, f"mon.write({k}s[1])")]
        if how == "ternary":
            return [(0, f'mon.write("c-yes" if {cmp} else "c-no")')]
        return [(0, f"if {cmp}:"), (1, 'mon.write("c-yes")')]

    def gen_poly_helper(self, env) -> List[Tuple[int, str]]:
        """A helper whose body is meaningful for ints and floats alike, called with several argument-type
        signatures (one C++ variant each) from assignments, arguments, conditions and other helpers."""

        r = self.rng
        name = self.fresh("poly")
        a, b = self.fresh("a"), self.fresh("a")
        form = r.choice(["dbl", "add", "maxof", "scale_if", "neg"])
        if form == "dbl":
            params, body = [a], [f"return {a} * 2"]
        elif form == "add":
            params, body = [a, b], [f"return {a} + {b}"]
        elif form == "maxof":
            params, body = [a, b], [f"if {a} > {b}:", f"    return {a}", f"return {b}"]
        elif form == "scale_if":
            params, body = [a, b], [f"if {b} > 1:", f"    return {a} * {b}", f"return {a}"]
        else:
            params, body = [a], [f"return 0 - {a}"]
        self.emit(0, f"def {name}({', '.join(params)}):")
        for line in body:
            self.emit(1, line)
        ints = ["2", "0", "7", "-3"] + sorted(k for k, t in env.items() if t == "int")[:2]
        floats = ["1.5", "0.25", "-2.5", "(1.5 * 2.0)"] + sorted(k for k, t in env.items() if t == "float")[:2]
        out: List[Tuple[int, str]] = []
        for _ in range(r.randint(2, 5)):
            args = ", ".join(r.choice(ints if r.random() < 0.5 else floats) for _p in params)
            call = f"{name}({args})"
            how = r.choice(["assign", "assign", "write", "fstring", "cond", "nested"])
            if how == "assign":
                v = self.fresh("z")
                out += [(0, f"{v} = {call}"), (0, f"mon.write({v})")]
            elif how == "write":
                out.append((0, f"mon.write({call})"))
            elif how == "fstring":
                out.append((0, f'mon.write(f"p={{{call}}};")'))
            elif how == "cond":
                out += [(0, f"if {call} > 1:"), (1, 'mon.write("p-yes")'), (0, "else:"), (1, 'mon.write("p-no")')]
            else:
                inner = f"{name}({', '.join(r.choice(ints if r.random() < 0.5 else floats) for _p in params)})"
                args2 = ", ".join([inner] + [r.choice(ints) for _p in params[1:]])
                out.append((0, f"mon.write({name}({args2}))"))
        return out

    def gen_forward_pair(self, env) -> List[Tuple[int, str]]:
        """Two helpers where the first one defined calls the second (forward reference), or mutual recursion."""

        r = self.rng
        a, b = self.fresh("fwd"), self.fresh("fwd")
        n = self.fresh("a")
        if self.chance(0.3):
            # even / odd by mutual recursion
            self.emit(0, f"def {a}({n}):")
            self.emit(1, f"if {n} <= 0:")
            self.emit(2, "return 1")
            self.emit(1, f"return {b}({n} - 1)")
            self.emit(0, f"def {b}({n}):")
            self.emit(1, f"if {n} <= 0:")
            self.emit(2, "return 0")
            self.emit(1, f"return {a}({n} - 1)")
            return [(0, f"mon.write({a}({d}))") for d in sorted({r.randint(0, 5), r.randint(0, 5)})]
        nonint = self.feature("forward_ref_nonint", 0.4)
        body_b = r.choice([f"{n} * 0.5", f"{n} + 0.25"]) if nonint else r.choice([f"{n} * 2", f"{n} + 7", f"0 - {n}"])
        self.emit(0, f"def {a}({n}):")
        if self.chance(0.5):
            t = self.fresh("t")
            self.emit(1, f"{t} = {b}({n})")
            self.emit(1, f"return {t} + 1")
        else:
            self.emit(1, f"return {b}({n}) + 1")
        self.emit(0, f"def {b}({n}):")
        self.emit(1, f"return {body_b}")
        return [(0, f"mon.write({a}({r.randint(0, 9)}))"), (0, f"mon.write({b}({r.randint(0, 9)}))")]

    def gen_recursive_helper(self, env) -> List[Tuple[int, str]]:
        """A self-recursive helper (result kept in a local or used inline), called for depths 0..4."""

        r = self.rng
        name = self.fresh("rec")
        ret = r.choice(["float", "float", "int", "str"] if self.opts.use_floats and self.opts.use_strings else ["int"])
        base = {"float": r.choice(["0.0", "0.25", "1.5"]), "int": str(r.randint(0, 3)), "str": '"b"'}[ret]
        step = {"float": r.choice(["0.5", "1.25"]), "int": str(r.randint(1, 4)), "str": '"s"'}[ret]
        n = self.fresh("a")
        two = self.chance(0.3) and ret != "str"
        params = f"{n}, {self.fresh('a')}" if two else n
        acc = params.split(", ")[1] if two else None
        self.emit(0, f"def {name}({params}):")
        self.emit(1, f"if {n} <= 0:")
        self.emit(2, f"return {base}" if not two else f"return {acc} + {base}")
        inner = f"{name}({n} - 1)" if not two else f"{name}({n} - 1, {acc} + {step})"
        if self.chance(0.6):
            local = r.choice(["out", "res", "val", "acc", self.fresh("t")])
            if local in env:
                local = self.fresh("t")
            self.emit(1, f"{local} = {inner}")
            self.emit(1, f"return {local} + {step}")
        else:
            self.emit(1, f"return {inner} + {step}" if (ret == "str" or self.chance(0.7)) else f"return {step} + {inner}")
        out = []
        for d in sorted(set(r.choice([0, 1, 2, 3, 4]) for _ in range(r.randint(1, 3)))):
            args = str(d) if not two else f"{d}, {base}"
            out.append((0, f"mon.write({name}({args}))") if self.chance(0.5) else (0, f"{self.fresh('z')} = {name}({args})"))
            if out[-1][1].split(" = ")[0] != out[-1][1]:
                out.append((0, f"mon.write({out[-1][1].split(' = ')[0]})"))
        return out

    def stmt_list_copy_growth(self, depth: int, env) -> None:
        """A list re-assigned from another list that keeps growing (or shrinking) at run time: the copy must be sized
        by the source's current length, not by the length the transpiler tracked.  Both lists are dead afterwards
        (Python aliases them, the firmware copies - the difference is the subject of the list_alias finding)."""

        r = self.rng
        src, dst = self.fresh("xa"), self.fresh("ya")
        n = r.randint(1, 4)
        elem = r.choice(["int", "int", "float"]) if self.opts.use_floats else "int"
        lit = (lambda: str(r.randint(0, 40))) if elem == "int" else (lambda: repr(r.randint(0, 40) + 0.5))
        self.emit(depth, f"{src} = [{', '.join(lit() for _ in range(n))}]")
        self.emit(depth, f"{dst} = [{', '.join(lit() for _ in range(n))}]")
        k = self.fresh("k")
        self.emit(depth, f"for {k} in range({r.randint(2, 3)}):")
        # the copy comes first: with the append in front the transpiler's tracked lengths differ and it rejects the script
        self.emit(depth + 1, f"{dst} = {src}")
        self.emit(depth + 1, f"{src}.append({lit()})")
        if r.random() < 0.4:
            self.emit(depth + 1, f"{src}.append({lit()})")
        if "mon" in env:
            self.emit(depth, f'mon.write("copied")')

    def stmt_list_straight(self, depth: int, env) -> None:
        """Straight-line top-level list bookkeeping: the transpiler's tracked length must stay exact."""

        r = self.rng
        name = self.fresh("xs")
        n = r.randint(2, 5)
        pool = [r.choice([0, 0, 1, r.randint(2, 40)]) for _ in range(r.choice([1, 2, n]))]
        values = [r.choice(pool) for _ in range(n)]
        self.emit(depth, f"{name} = [{', '.join(str(v) for v in values)}]")
        env[name] = "list"
        self.list_elem[name] = "int"
        self.literal_items[name] = list(values)
        self.global_lists.add(name)
        self.len_safe.discard(name)
        current = list(values)
        for _ in range(r.randint(1, 4)):
            op = r.choice(["remove", "remove", "append", "probe"])
            if op == "remove" and len(current) > 1:
                v = r.choice(current)
                current.remove(v)
                self.emit(depth, f"{name}.remove({v})")
            elif op == "append":
                v = r.choice([0, 1, r.randint(2, 40)])
                current.append(v)
                self.emit(depth, f"{name}.append({v})")
            if "mon" in env:
                self.emit(depth, f"mon.write(len({name}))")
                self.emit(depth, f"mon.write({name}[len({name}) - 1])")
        # from here on the list is treated like any other mutated list with a known minimal length
        self.list_len[name] = len(current)
        self.literal_items[name] = list(current)
        self.mutated_lists.add(name)

    def gen_stepper(self, genv) -> None:
        """A helper with a side effect, for `while step() < k: pass` busy-wait loops."""

        counter = self.fresh("c")
        fname = self.fresh("step")
        self.emit(0, f"{counter} = 0")
        genv[counter] = "int"
        self.readonly.add(counter)
        self.emit(0, f"def {fname}():")
        self.emit(1, f"global {counter}")
        self.emit(1, f"{counter} = {counter} + 1")
        self.emit(1, f"return {counter}")
        self.steppers.append((fname, counter))

    def stmt_busy_wait(self, depth: int, env) -> None:
        fname, counter = self.rng.choice(self.steppers)
        bound = self.rng.randint(1, 6)
        self.emit(depth, f"while {fname}() < {bound}:")
        filler = self.rng.choice(["pass", "pass", "# wait", 'print("waiting")'])
        if filler.startswith("#"):
            self.emit(depth + 1, filler)
            self.emit(depth + 1, "pass")
        else:
            self.emit(depth + 1, filler)
        if "mon" in env:
            self.emit(depth, f"mon.write({counter})")

    # ------------------------------------------------------------ whole program
    def generate(self) -> str:
        r = self.rng
        o = self.opts
        self.emit(0, "from Reduino import target")
        self.emit(0, 'target("COM3")')
        self.emit(0, "from Reduino.Communication import SerialMonitor")
        self.emit(0, "from Reduino.Utils import sleep")
        env: Dict[str, str] = {}
        self.emit(0, 'mon = SerialMonitor(9600, "COM3")')
        env["mon"] = "mon"
        if o.use_led:
            self.emit(0, "from Reduino.Actuators import Led")
            led = self.fresh("led")
            self.emit(0, f"{led} = Led({r.choice([3, 5, 6, 9, 13])})")
            env[led] = "led"
        if o.use_pot:
            self.emit(0, "from Reduino.Sensors import Potentiometer")
            pot = self.fresh("pot")
            self.emit(0, f'{pot} = Potentiometer("A{r.randint(0, 3)}")')
            env[pot] = "pot"
        if o.use_button:
            self.emit(0, "from Reduino.Sensors import Button")
            btn = self.fresh("btn")
            self.emit(0, f"{btn} = Button({r.choice([2, 4, 7, 8])})")
            env[btn] = "button"
        # a few globals before the helper definitions so helpers can read them
        for _ in range(r.randint(1, 4)):
            typ = r.choice(self.scalar_types())
            name = self.fresh({"int": "g", "float": "h", "bool": "c", "str": "w"}[typ])
            self.emit(0, f"{name} = {self.expr({k: v for k, v in env.items() if v in ('int', 'float', 'bool', 'str')}, typ, 2, no_call=True)}")
            env[name] = typ
        if o.use_helpers and self.chance(0.4):
            # a name hoisted out of a top-level if/else *before* the helper definitions
            self.stmt_hoist_if(0, env)
        if o.use_helpers:
            for _ in range(r.choice([0, 1, 1, 2, 3])):
                self.gen_helper(env)
            if self.chance(0.35):
                self.gen_stepper(env)
        deferred: List[Tuple[int, str]] = []
        deferred_loop: List[Tuple[int, str]] = []
        if o.use_helpers and o.use_floats and o.use_strings:
            if self.chance(0.3):
                if self.chance(0.7):
                    deferred.extend(self.gen_context_helper(env))
                else:
                    deferred_loop.extend(self.gen_context_helper(env, in_loop=True))
            if self.chance(0.25):
                deferred.extend(self.gen_recursive_helper(env))
            if self.chance(0.3):
                (deferred if self.chance(0.7) else deferred_loop).extend(self.gen_poly_helper(env))
            if self.chance(0.2):
                (deferred if self.chance(0.7) else deferred_loop).extend(self.gen_forward_pair(env))
        # every helper is called at least once (an uncalled helper keeps default-typed parameters)
        for h in self.helpers:
            args = [self.expr(env, t, 2, no_call=True) for _n, t in h.params]
            call = f"{h.name}({', '.join(args)})"
            if h.ret == "void":
                self.emit(0, call)
            else:
                name = self.fresh({"int": "n", "float": "x", "bool": "b", "str": "s"}[h.ret])
                self.emit(0, f"{name} = {call}")
                env[name] = h.ret
                self.probe(0, env, [name])
        for d, line in deferred:
            self.emit(d, line)
        setup_count = r.randint(1, max(2, o.max_stmts // 3))
        ctx = {"in_loop": False}
        self.block(0, env, ctx, setup_count)
        if not o.main_loop:
            for d, line in deferred_loop:
                self.emit(d, line)
        shrink_name = None
        if o.shrink_reassign and o.main_loop and o.use_lists:
            # the transpiler folds len(name) from the length it tracked; a shorter re-assignment it cannot see at the
            # point of use (later in the loop body / inside a branch) has to be refused, or the read runs off the list
            shrink_name = self.fresh("zs")
            n = r.randint(2, 5)
            self.emit(0, f"{shrink_name} = [{', '.join(str(r.randint(0, 40)) for _ in range(n))}]")
            self.shrink_len = n
        if o.main_loop:
            self.emit(0, "while True:")
            if shrink_name is not None:
                short = ", ".join(str(r.randint(0, 40)) for _ in range(r.randint(1, self.shrink_len - 1)))
                self.emit(1, r.choice([f"mon.write({shrink_name}[len({shrink_name}) - 1])", f"for q in range(len({shrink_name})):\n        mon.write({shrink_name}[q])"]))
                if r.random() < 0.5:
                    self.emit(1, f"{shrink_name} = [{short}]")
                else:
                    self.emit(1, f"if {shrink_name}[0] >= 0:")
                    self.emit(2, f"{shrink_name} = [{short}]")
            for d, line in deferred_loop:
                self.emit(d + 1, line)
            loop_env = dict(env)
            # inside the main loop `break` is illegal at loop level; nested loops may break
            self.in_main = True
            self.block(1, loop_env, {"in_loop": False, "main": True}, r.randint(2, max(3, o.max_stmts // 2)))
            self.in_main = False
        return "\n".join(self.lines) + "\n"


def random_world(rng: random.Random, script: str, passes: int) -> dict:
    """Inputs for every pin a script may read, for ``passes`` passes."""

    world: dict = {"passes": passes}
    ain: Dict[str, List[int]] = {}
    for ch in range(4):
        mode = rng.choice(["ramp", "noise", "extreme", "const"])
        n = rng.randint(1, 24)
        if mode == "ramp":
            start, step = rng.randint(0, 600), rng.randint(1, 90)
            seq = [min(1023, start + i * step) for i in range(n)]
        elif mode == "noise":
            seq = [rng.randint(0, 1023) for _ in range(n)]
        elif mode == "extreme":
            seq = [rng.choice([0, 1023, 1, 1022, 512]) for _ in range(n)]
        else:
            seq = [rng.randint(0, 1023)]
        ain[str(14 + ch)] = seq
    world["ain"] = ain
    din: Dict[str, List[int]] = {}
    for pin in (2, 4, 7, 8):
        din[str(pin)] = [rng.randint(0, 1) for _ in range(passes + 1)]
    world["din"] = din
    gap_mode = rng.choice(["zero", "zero", "small", "mixed"])
    if gap_mode == "zero":
        world["gaps"] = [0]
    elif gap_mode == "small":
        world["gaps"] = [rng.choice([0, 1000, 2500, 20000]) for _ in range(max(1, passes))]
    else:
        world["gaps"] = [rng.choice([0, 0, 1000, 150000, 5000000]) for _ in range(max(1, passes))]
    if rng.random() < 0.3:
        world["boot_us"] = rng.choice([1000, 250000, 7000000])
    return world
