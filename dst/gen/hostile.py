"""Hostile and malformed inputs for the transpiler (C11)."""

from __future__ import annotations

import random
from typing import List

PREAMBLE = """from Reduino import target
target("COM3")
from Reduino.Actuators import Led, RGBLed, Servo, DCMotor, Buzzer
from Reduino.Sensors import Button, Potentiometer, Ultrasonic
from Reduino.Displays import LCD
from Reduino.Communication import SerialMonitor
from Reduino.Utils import sleep
mon = SerialMonitor(9600, "COM3")
led = Led(13)
rgb = RGBLed(9, 10, 11)
sv = Servo(6)
m = DCMotor(2, 3, 5)
bz = Buzzer(8)
lcd = LCD(rs=12, en=11, d4=5, d5=4, d6=3, d7=2)
"""

TEMPLATES = [
    "led2 = Led({H})",
    "sv2 = Servo({H}, min_angle={H})",
    "rgb2 = RGBLed({H}, 1, 2)",
    "m2 = DCMotor(1, {H}, 3)",
    "bz2 = Buzzer({H}, default_frequency={H})",
    "lcd2 = LCD(i2c_addr={H}, cols={H}, rows=2)",
    "mon2 = SerialMonitor({H})",
    "u = Ultrasonic(1, 2, sensor={H})",
    "u = Ultrasonic({H}, 2)",
    "btn = Button({H}, on_click={H})",
    "pot = Potentiometer({H})",
    "sleep({H})",
    "if {H}:\n    x = 1\nelif {H}:\n    x = 2",
    "while {H}:\n    break",
    "for i in range({H}):\n    pass",
    "xs = [{H}, 2]",
    "xs = [i for i in range({H})]",
    "xs = [{H} for i in range(3)]",
    'mon.write(f"{{{H}}}")',
    "mon.write({H})",
    "@{H}\ndef f():\n    return 1",
    "def f(a={H}):\n    return a",
    "def f(a):\n    return {H}\ny = f(1)",
    "target({H})",
    'target("COM3", upload={H})',
    "led.flash_pattern({H})",
    "led.flash_pattern([1, 0], {H})",
    "lcd.glyph(0, {H})",
    "lcd.glyph({H}, [0, 1, 2, 3, 4, 5, 6, 7])",
    "x = {H}",
    "a = -2\nx = a ** 10**9",
    "a = -3\nb = 10**8\nsleep(a ** b)",
    "n = 10**6\nx = (-2) ** (n * n)",
    "x, y = {H}, 2",
    "x = 1\nx += {H}",
    "led.set_brightness({H})",
    "led.blink({H}, times={H})",
    "rgb.set_color({H}, 1, 2)",
    "rgb.fade(1, 2, 3, duration_ms={H}, steps={H})",
    "sv.write({H})",
    "sv.write_us({H})",
    "m.set_speed({H})",
    "m.ramp({H}, {H})",
    "lcd.write(0, 0, {H})",
    "lcd.line({H}, \"x\", align={H})",
    "lcd.progress(0, {H}, max_value={H}, style={H})",
    'lcd.animate({H}, 0, "t", speed_ms={H}, loop={H})',
    "lcd.display({H})",
    "lcd.brightness({H})",
    "bz.melody({H})",
    "bz.melody(\"startup\", tempo={H})",
    "bz.play_tone({H}, {H})",
    "bz.beep({H}, on_ms={H}, times={H})",
    "bz.sweep({H}, {H}, duration_ms={H}, steps={H})",
    "x = len({H})",
    "x = abs({H}) + max({H}, 1) + min({H})",
    "x = int({H}) + float({H})\ns = str({H})",
    "try:\n    x = {H}\nexcept {H}:\n    x = 2",
    "digital_write({H}, {H})",
    "x = analog_read({H})",
    "pin_mode({H}, {H})",
    "while True:\n    x = {H}\n    sleep({H})",
    "while True:\n    if {H}:\n        led.toggle()",
]


def hostile_exprs(canary: str) -> List[str]:
    return [
        f"__import__('os').system('touch {canary}')",
        f"open('{canary}', 'w').write('x')",
        f"eval(\"open('{canary}','w')\")",
        f"exec(\"open('{canary}','w')\")",
        f"(lambda: open('{canary}', 'w'))()",
        f"[open('{canary}', 'w') for _ in range(1)]",
        f"__import__('subprocess').run(['touch', '{canary}'])",
        f"__import__('pathlib').Path('{canary}').write_text('x')",
        "__import__('os').environ.setdefault('DST_CANARY', '1')",
        "__import__('socket').socket()",
        "().__class__.__base__.__subclasses__()",
        "getattr(__builtins__, 'open')",
        "globals()",
        "(y := 5)",
        "9**9**9",
        "10**10**10",
        "1 << 10**10",
        "2**2**2**2**2**2",
        "(7**77777777) % 3",
        "-(2**10**8)",
        "(-7) ** 40000000",
        "(-2) ** 10**9",
        "(-3) ** (10**8 + 1)",
        "(-10**3) ** 10**7",
        "(0 - 5) ** 99999999",
        "2.0 ** 10**6",
        "(10**1000) ** (10**1000)",
        "(3 << 4000) << 4000",
        "abs(-9) ** 10**9",
        "max(2, 3) ** 10**9",
        "min(-2, 3) ** (10**9 + 1)",
        "int(-4.0) ** 10**9",
        "'a' * 10**10",
        "[0] * 10**10",
        "12345678901234567890123456789012345678901234567890",
        "1e400",
        "-1e400",
        "1e400 - 1e400",
        "1j",
        "...",
        "None",
        "b'bytes'",
        "{1: 2}",
        "{1, 2}",
        "x[::2]",
        "a.b.c.d()",
        "a if b else c if d else e",
        "not a in b",
        "a is not None",
        "lambda x: x",
        "*args",
        "**kwargs",
        "await x",
        "1 if",
        "(",
        "')",
        "\"unterminated",
        "f'{'",
        "1 +",
        "0x",
        "1__0",
        "\\",
        "'\\x00'",
        "'\\ud800'",
        "'%s' % 5",
        "'{}'.format(5)",
        "int('x')",
        "float('nan')",
        "int(1e400)",
        "1 / 0",
        "1 // 0",
        "1 % 0",
        "2 ** -1",
        "0 ** -1",
        "(-8) ** 0.5",
        "1 << -1",
        "1.5 << 2",
        "max()",
        "min([])",
        "len(5)",
        "abs('x')",
        "int()",
        "str(1, 2)",
        "bool(x=1)",
        "'a' < 1",
        "[1] < 2",
        "-'a'",
        "not []",
        "True + True",
        "-" * 300 + "1",
        "(" * 120 + "1" + ")" * 120,
        "[" * 60 + "1" + "]" * 60,
        "+".join(["1"] * 3000),
        " and ".join(["True"] * 1500),
        "x" * 5000,
        "'" + "s" * 20000 + "'",
    ]


def hostile_texts(rng: random.Random, canary: str, count: int) -> List[dict]:
    exprs = hostile_exprs(canary)
    out = []
    for _ in range(count):
        tmpl = rng.choice(TEMPLATES)
        body = tmpl
        used = []
        while "{H}" in body:
            h = rng.choice(exprs) if rng.random() < 0.8 else rng.choice(["1", "x", "led", "'s'", "2.5"])
            used.append(h)
            body = body.replace("{H}", h, 1)
        pre = PREAMBLE if rng.random() < 0.85 else ""
        out.append({"kind": "hostile", "text": pre + body + "\n", "note": tmpl[:40]})
    return out


def mutate_text(rng: random.Random, text: str) -> str:
    ops = rng.randint(1, 4)
    for _ in range(ops):
        if not text:
            break
        k = rng.choice(["del", "dup", "swap", "ins", "line_del", "line_dup", "indent", "kw"])
        i = rng.randrange(len(text))
        if k == "del":
            j = min(len(text), i + rng.randint(1, 6))
            text = text[:i] + text[j:]
        elif k == "dup":
            j = min(len(text), i + rng.randint(1, 12))
            text = text[:j] + text[i:j] + text[j:]
        elif k == "swap":
            j = rng.randrange(len(text))
            a, b = min(i, j), max(i, j)
            if a != b:
                text = text[:a] + text[b] + text[a + 1 : b] + text[a] + text[b + 1 :]
        elif k == "ins":
            text = text[:i] + rng.choice(["(", ")", ":", ",", "=", "'", '"', "\\", "\t", "\x00", "é", "[", "{", ".", "#", "\n", " "]) + text[i:]
        else:
            lines = text.split("\n")
            li = rng.randrange(len(lines))
            if k == "line_del":
                del lines[li]
            elif k == "line_dup":
                lines.insert(li, lines[li])
            elif k == "indent":
                lines[li] = rng.choice(["    ", "\t", " ", "        "]) + lines[li]
            else:
                lines.insert(li, rng.choice(["break", "continue", "return", "return 5", "pass", "global x", "else:", "elif x:", "except:", "finally:", "yield 1", "import os", "from os import *", "class A:", "    pass", "with open('f') as f:", "del x", "assert x", "raise ValueError", "lambda: 0", "x: int = 5", "async def f(): pass", "nonlocal x", "while True:", "def g(*a, **k):", "@property"]))
            text = "\n".join(lines)
    return text


def noise(rng: random.Random) -> str:
    kind = rng.choice(["bytes", "nul", "long", "unicode", "ws", "tabs", "crlf", "empty"])
    if kind == "bytes":
        return "".join(chr(rng.randrange(1, 256)) for _ in range(rng.randint(1, 400)))
    if kind == "nul":
        return "x = 1\x00\ny = 2\n"
    if kind == "long":
        return "x = " + "1 + " * rng.randint(2000, 6000) + "1\n"
    if kind == "unicode":
        return "".join(chr(rng.choice([0x3b1, 0x4e2d, 0x1F600, 0x202e, 0xfeff, 0x2028, 0x85, 0xa0])) for _ in range(rng.randint(1, 80))) + "\n"
    if kind == "ws":
        return "".join(rng.choice([" ", "\t", "\n", "\r", "\f", "\v"]) for _ in range(rng.randint(0, 200)))
    if kind == "tabs":
        return "while True:\n\tx = 1\n        y = 2\n\t\tz = 3\n"
    if kind == "crlf":
        return "x = 1\r\nwhile True:\r\n    x += 1\r\n"
    return ""


# Scripts that must be *rejected*: each one is aimed at a different diagnostic of the transpiler, so that a
# rejection raised with the wrong exception type (or turned into an internal error) is seen.
REJECTION_TRIGGERS = [
    "for i in range(1, 5):\n    pass",
    "for i in range(1, 5, 2):\n    led.toggle()",
    "for i in range():\n    pass",
    "break",
    "continue",
    "while True:\n    break",
    "while True:\n    if 1:\n        break",
    "return 5",
    "def f():\n    return\n    return 1\nx = f()",
    "def f(a):\n    if a:\n        return 'x'\n    return 1\ny = f(1)",
    "def f(*a):\n    return 1",
    "def f(**k):\n    return 1",
    "def f(a, *, b):\n    return 1",
    "def f(a=1):\n    return a",
    "def f(a, b):\n    return a\nx = f(1)",
    "pot = Potentiometer(5)",
    "pot = Potentiometer('B7')",
    "pot = Potentiometer()",
    "btn = Button()",
    "btn = Button(2, on_click=1 + 1)",
    "btn = Button(2, on_click='cb')",
    "sv2 = Servo(9, min_angle=90, max_angle=10)",
    "sv2 = Servo(9, min_pulse_us=2000, max_pulse_us=1000)",
    "m2 = DCMotor(1, 2)",
    "rgb2 = RGBLed(1, 2)",
    "u = Ultrasonic(1)",
    "u = Ultrasonic()",
    "u = Ultrasonic(1, 2, sensor='HC-SR05')",
    "u = Ultrasonic(1, 2, sensor=5)",
    "u = Ultrasonic(1, 2, model=x)",
    "lcd2 = LCD(rs=1, en=2)",
    "rgb.set_color(1, 2)",
    "rgb.fade(1, 2)",
    "rgb.blink(1)",
    "led.flash_pattern(5)",
    "led.flash_pattern('101')",
    "led.flash_pattern([1, 'a'])",
    "led.flash_pattern(pat)",
    "bz.play_tone()",
    "bz.sweep(100)",
    "bz.sweep(100, 200)",
    "bz.melody()",
    "bz.melody(5)",
    "bz.melody('unknown tune')",
    "bz.melody(name)",
    "sv.write()",
    "sv.write_us()",
    "m.set_speed()",
    "m.ramp(0.5)",
    "m.ramp()",
    "m.run_for(100)",
    "m.run_for()",
    "lcd.write(0, 0)",
    "lcd.line(0)",
    "lcd.line(0, 'x', align='middle')",
    "lcd.line(0, 'x', align=5)",
    "lcd.display()",
    "lcd.backlight()",
    "lcd.brightness()",
    "lcd.glyph(0)",
    "lcd.glyph(0, 5)",
    "lcd.glyph(0, [1, 2, 3])",
    "lcd.glyph(0, ['a'] * 8)",
    "lcd.progress(0)",
    "lcd.progress(0, 5, style='stars')",
    "lcd.progress(0, 5, style=5)",
    "lcd.animate('wave', 0, 'x')",
    "lcd.animate('scroll', 0)",
    "lcd.animate(5, 0, 'x')",
    "xs = [1, 2]\nxs = 5",
    "xs = [1, 2]\nxs = [1, 2, 3]",
    "xs = [1, 2]\nxs = ['a', 'b']",
    "xs = [1, [2]]",
    "xs = [[1], ['a']]",
    "xs = [i for i in range(3) if i]",
    "xs = [i for i in [1, 2]]",
    "xs = [i + j for i in range(2) for j in range(2)]",
    "xs = [1, 2]\ny = xs[0:1]",
    "x = f'{1!r}'",
    "x = f'{1:>4}'",
    "pin_mode(7)",
    "pin_mode(7, OUTPUT, 1)" if False else "pin_mode(pin=7, mode=OUTPUT, extra=1)",
    "digital_write(7)",
    "digital_write(7, value=1, pin=7)",
    "analog_write(7)",
    "x = digital_read()",
    "x = analog_read()",
    "x = analog_read(pin=1, other=2)",
    "mon.write(led.get_state(1))",
    "mon.write(sv.read(1))",
    "mon.write(mon.read('nowhere'))",
    "mon.write(mon.read(emit='x'))",
    "mon.write(unknown_device.measure_distance())",
    "mon.write(led.get_speed())",
    "a, b, c = 1, 2",
    "x = helper(y=1)",
    "x = max(y=1)",
]


def rejection_texts(rng: random.Random, count: int) -> List[str]:
    return [PREAMBLE + rng.choice(REJECTION_TRIGGERS) + "\n" for _ in range(count)]


# ---------------------------------------------------------------------------------------------------
# Legal scripts that stress the transpiler itself rather than the firmware: C11 only asks for a prompt
# answer of the right kind, so these need not be well-defined at run time.

def growth_chain(rng: random.Random) -> str:
    """A constant that doubles (in bits or in characters) on every line through a name: folding must stay bounded."""

    n = rng.choice([24, 30, 40, 64])
    seed = rng.choice(["7", "-7", "1 << 4000", "3 ** 50", "255", "10 ** 30"])
    kind = rng.choice(["mul", "aug", "tuple", "pow", "shift", "str", "straug", "fstr", "fstr3", "minmax", "loop", "arg", "helper"])
    if kind == "mul":
        body = f"a = {seed}\n" + "a = a * a\n" * n
    elif kind == "aug":
        body = f"a = {seed}\n" + "a *= a\n" * n
    elif kind == "tuple":
        body = f"a, b = {seed}, 9\n" + "a, b = a * b, b * a\n" * n
    elif kind == "pow":
        body = "a = 3\n" + "a = a ** a\n" * rng.choice([5, 8, 12])
    elif kind == "shift":
        body = "a = 3\n" + rng.choice(["a = a << a\n", "a = a << 4000\n", "a = (a << 4096) * a\n"]) * n
    elif kind == "str":
        body = 's = "abcdefgh"\n' + "s = s + s\n" * n
    elif kind == "straug":
        body = 's = "abcdefgh"\n' + "s += s\n" * n
    elif kind == "fstr":
        body = 's = "abcdefgh"\n' + 's = f"{s}{s}"\n' * n
    elif kind == "fstr3":
        body = 's = "ab"\nk = 12345678\n' + 's = f"{s}-{k}-{s}"\nk = k * k\n' * n
    elif kind == "minmax":
        body = f"a = {seed}\n" + "a = max(a * a, a)\n" * n
    elif kind == "loop":
        body = f"a = {seed}\nwhile True:\n" + "    a = a * a\n" * n
    elif kind == "arg":
        body = f"a = {seed}\n" + "a = a * a\n" * n + rng.choice(["sleep(a)\n", "led.set_brightness(a)\n", "sv.write(a)\n", "mon.write(a)\n", "for i in range(a):\n    pass\n", "lcd.line(0, str(a))\n"])
    else:
        body = f"def grow(v):\n    return v * v\na = {seed}\n" + "a = grow(a) * a\n" * n
    return PREAMBLE + body


def wild_script(rng: random.Random) -> str:
    """A syntactically valid script of the supported subset whose run-time behaviour may be undefined: list
    operations beyond the list's length, removes of run-time values in every branch, helpers called with several
    signatures, zero divisors, undefined names, deep nesting."""

    lines: List[str] = ['pot = Potentiometer("A0")']
    lists: List[str] = []
    scalars: List[str] = ["v"]
    lines.append("v = pot.read()")

    def value() -> str:
        return rng.choice(["0", "1", "2", "-1", "v", "pot.read()", "v + 1", "1.5", "'a'", "True", "ghost", "len(xs0)", "v // 0", "7 % 0"] + scalars)

    def stmt(depth: int, allow_block: bool = True) -> List[str]:
        ind = "    " * depth
        k = rng.choice(["newlist", "append", "remove", "remove", "remove", "index", "assign", "alias", "relist", "call", "if", "if", "for", "while", "try", "scalar", "aug"])
        if k == "newlist" or not lists:
            name = f"xs{len(lists)}"
            lists.append(name)
            items = rng.choice(["[]", "[1]", "[1, 2]", "[v]", "[1.5]", "['a']", "[i for i in range(2)]", "[0] ", "[1, 1, 1]"])
            return [f"{ind}{name} = {items}"]
        xs = rng.choice(lists)
        if k == "append":
            return [f"{ind}{xs}.append({value()})"]
        if k == "remove":
            return [f"{ind}{xs}.remove({value()})"]
        if k == "index":
            return [f"{ind}mon.write({xs}[{rng.choice(['0', '1', '-1', '5', 'v', 'len(' + xs + ')', '-7'])}])"]
        if k == "assign":
            return [f"{ind}{xs}[{rng.choice(['0', '3', '-1', 'v'])}] = {value()}"]
        if k == "alias":
            name = f"ys{len(lists)}"
            lists.append(name)
            return [f"{ind}{name} = {xs}"]
        if k == "relist":
            return [f"{ind}{xs} = {rng.choice(['[]', '[2]', '[v, v]', rng.choice(lists)])}"]
        if k == "call":
            return [f"{ind}{rng.choice(['drop', 'push', 'peek'])}({value()})"]
        if k == "scalar":
            name = f"s{len(scalars)}"
            scalars.append(name)
            return [f"{ind}{name} = {value()}"]
        if k == "aug":
            return [f"{ind}{rng.choice(scalars)} {rng.choice(['+=', '-=', '*=', '//=', '%=', '/='])} {value()}"]
        if not allow_block or depth >= 4:
            return [f"{ind}pass"]
        body = lambda: sum((stmt(depth + 1) for _ in range(rng.randint(1, 3))), [])  # noqa: E731
        if k == "if":
            out = [f"{ind}if {value()} > {value()}:"] + body()
            if rng.random() < 0.5:
                out += [f"{ind}elif {value()}:"] + body()
            if rng.random() < 0.7:
                out += [f"{ind}else:"] + body()
            return out
        if k == "for":
            return [f"{ind}for i{depth} in range({rng.choice(['0', '2', 'v', 'len(' + xs + ')'])}):"] + body()
        if k == "while":
            return [f"{ind}while {value()} < {value()}:"] + body() + [f"{ind}    break"]
        return [f"{ind}try:"] + body() + [f"{ind}except {rng.choice(['ValueError', 'Exception', 'IndexError'])}:"] + body()

    helpers = [
        "def drop(q):", f"    {rng.choice(['xs0', 'xs1'])}.remove(q)",
        "def push(q):", "    xs0.append(q)", "    return q",
        "def peek(q):", "    return xs0[q]" if rng.random() < 0.5 else "    return len(xs0) + q",
    ]
    lines.append("xs0 = " + rng.choice(["[1]", "[]", "[1, 2]"]))
    lists.append("xs0")
    lines.append("xs1 = " + rng.choice(["[1]", "[]", "[2.5]"]))
    lists.append("xs1")
    lines += helpers
    for _ in range(rng.randint(3, 10)):
        lines += stmt(0)
    lines.append("while True:")
    for _ in range(rng.randint(1, 6)):
        lines += stmt(1)
    return PREAMBLE + "\n".join(lines) + "\n"


def padded_statement(rng: random.Random) -> str:
    """A device statement with a very long run of one blank / separator character somewhere in it, with or
    without its closing parenthesis: pattern matching must stay (close to) linear in the line length."""

    stmt = rng.choice([
        "led.on()", "led.set_brightness(5)", "led.blink(100, 3)", "rgb.set_color(1, 2, 3)", "sv.write(90)", "mon.write(x)",
        'mon.write("text")', "bz.beep(440)", "m.ramp(0.5, 100)", 'lcd.write(0, 0, "x")', "lcd.progress(0, 5)", 'lcd.animate("scroll", 0, "x")',
        "led2 = Led(13)", "u = Ultrasonic(1, 2)", "btn = Button(2)", "sleep(5)", "for i in range(3):\n    pass", "if x:\n    pass", "x = 1", 'target("COM3")',
    ])
    n = rng.choice([800, 3000, 6000, 12000])
    filler = rng.choice([" ", " ", "\t", "\x0c", "\xa0", "\x1f", " \t", ", ", "( ", ") ", " = ", "\\ ", "a ", "1 ", "not ", "-", "[", "a.", "f("]) * (n // 2 if rng.random() < 0.3 else n)
    first = stmt.split("\n")[0]
    rest = stmt[len(first):]
    where = rng.choice(["after_open", "before_close", "tail", "middle", "no_close", "in_string"])
    if where == "after_open" and "(" in first:
        i = first.index("(") + 1
        line = first[:i] + filler + first[i:]
    elif where == "before_close" and ")" in first:
        i = first.rindex(")")
        line = first[:i] + filler + first[i:]
    elif where == "middle":
        i = rng.randrange(len(first) + 1)
        line = first[:i] + filler + first[i:]
    elif where == "no_close" and "(" in first:
        i = first.index("(") + 1
        line = first[:i] + filler + rng.choice(["x", "5", ""])
    elif where == "in_string":
        line = 'mon.write("' + filler + rng.choice(['")', '"', ""])
    else:
        line = first + filler + rng.choice(["", "x", "# c"])
    return PREAMBLE + line + rest + "\n"


_RUNTIME_EXPRS = ["v", "v + 1", "pot.read()", "w", "flag", "name", "v // 2", "-v", "analog_read(0) + 2000", "len(name)", "v * 0.5", "v > 3",
                  "(v if flag else 7)", "abs(v - 500)", "int(w)", "float(v)", "str(v)", "xs[0]", "max(v, 3)"]


def runtime_arg_text(rng: random.Random) -> str:
    """A legal statement whose arguments are translatable but only known at run time, in every argument position:
    validation code that compares or converts its arguments must cope with both constants and run-time expressions."""

    tmpl = rng.choice([t for t in TEMPLATES if "{H}" in t] + [
        "sv2 = Servo(6, max_pulse_us={H})", "sv2 = Servo(6, min_pulse_us={H})", "sv2 = Servo(6, min_pulse_us={H}, max_pulse_us={H})",
        "sv2 = Servo(6, min_angle={H}, max_angle={H})", "lcd2 = LCD(rs=12, en=11, d4=5, d5=4, d6=3, d7=2, cols={H}, rows={H})",
        "lcd.write({H}, {H}, {H})", "lcd.line({H}, {H})", "lcd.progress({H}, {H}, max_value={H}, width={H})", "lcd.brightness({H})",
        "lcd.animate('scroll', {H}, {H}, speed_ms={H})", "bz.play_tone({H}, {H})", "bz.beep({H}, on_ms={H}, off_ms={H}, times={H})",
        "bz.sweep({H}, {H}, duration_ms={H}, steps={H})", "bz.melody('siren', tempo={H})", "m.set_speed({H})", "m.ramp({H}, {H})",
        "m.run_for({H}, {H})", "rgb.set_color({H}, {H}, {H})", "rgb.fade({H}, {H}, {H}, {H}, {H})", "rgb.blink({H}, {H}, {H}, {H}, {H})",
        "led.blink({H}, {H})", "led.fade_in({H}, {H})", "sv.write({H})", "sv.write_us({H})", "pin_mode({H}, OUTPUT)", "digital_write({H}, {H})",
        "analog_write({H}, {H})", "x = digital_read({H})", "x = analog_read({H})",
    ])
    body = tmpl
    while "{H}" in body:
        body = body.replace("{H}", rng.choice(_RUNTIME_EXPRS), 1)
    head = 'pot = Potentiometer("A0")\nv = pot.read()\nw = v * 0.5\nflag = v > 3\nname = str(v)\nxs = [v, 2]\n'
    where = rng.choice(["setup", "loop", "branch", "helper"])
    if where == "setup" or "\n" in body or body.startswith(("def ", "@")):
        text = head + body + "\n"
    elif where == "loop":
        text = head + "while True:\n    " + body + "\n"
    elif where == "branch":
        text = head + "if flag:\n    " + body + "\nelse:\n    " + body + "\n"
    else:
        text = head + "def act(v, w):\n    " + body + "\nact(v, w)\nact(1, 2.5)\n"
    return PREAMBLE + text


def helper_chain(rng: random.Random) -> str:
    """n helpers, each calling the previous one, with a parameter that is re-typed inside (int argument concatenated
    with a string): translating the chain must stay linear in n."""

    n = rng.choice([8, 16, 26, 40])
    kind = rng.choice(["str", "float", "mixed"])
    lines = []
    if kind == "str":
        lines += ["def f0(v):", '    return "v=" + v']
    elif kind == "float":
        lines += ["def f0(v):", "    return v * 0.5"]
    else:
        lines += ["def f0(v):", "    if v:", '        return "a" + v', "    return v"]
    for k in range(1, n):
        if rng.random() < 0.2:
            lines += [f"def f{k}(v):", f"    t = f{k - 1}(v)", "    return t + v"]
        else:
            lines += [f"def f{k}(v):", f"    return f{k - 1}(v) + v"]
    lines.append(f"msg = f{n - 1}({rng.choice(['7', '1.5', chr(34) + 'q' + chr(34), 'True'])})")
    lines.append("mon.write(msg)")
    return PREAMBLE + "\n".join(lines) + "\n"
