"""Run a Reduino script under CPython against the host-side Reduino modules, inside the
simulator: virtual clock, world-driven sensor providers, fake serial port, pass limiter.

The Reduino classes themselves run unmodified; the simulator owns only the seams
(`Reduino.Utils.time`, sensor providers, `Reduino.Communication.serial`, `Reduino.target`)
and wraps the single writers of device state with loggers that do not change behaviour.
"""

from __future__ import annotations

import ast
import contextlib
import functools
import io
import sys
from typing import Dict, List, Optional

from dst.core.common import setup_repo_import
from dst.core.trace import PHASE_SETUP, Trace

setup_repo_import()

import Reduino  # noqa: E402
import Reduino.Actuators as _act  # noqa: E402
import Reduino.Communication as _comm  # noqa: E402
import Reduino.Core as _core  # noqa: E402
import Reduino.Displays as _disp  # noqa: E402
import Reduino.Sensors as _sens  # noqa: E402
import Reduino.Utils as _utils  # noqa: E402
from Reduino.Actuators import DCMotor, Led, RGBLed, Servo  # noqa: E402
from Reduino.Communication.SerialMonitor import SerialMonitor  # noqa: E402
from Reduino.Displays.LCD import LCD  # noqa: E402


class StopSimulation(BaseException):
    """Raised by the pass hook when the requested number of passes has run."""


class HostBudgetExceeded(BaseException):
    """Deterministic step budget exhausted (runaway loop in the script)."""


class _Recorder:
    def __init__(self, world: dict, passes: int, budget: int) -> None:
        self.world = world
        self.passes = passes
        self.trace = Trace()
        self.phase = PHASE_SETUP
        self.now_ms = float(world.get("boot_us", 0)) / 1000.0
        self.pin_level: Dict[int, int] = {}
        self.ain_pos: Dict[int, int] = {}
        self.pulse_pos: Dict[int, int] = {}
        self.steps = 0
        self.budget = budget
        self.lcds: List[LCD] = []
        self.sleep_calls: List[float] = []
        self.namespace: Optional[dict] = None
        self.live_samples: List[int] = []  # live list/str data at the end of setup and of each pass

    # -- clock
    def sleep_seconds(self, seconds: float) -> None:
        ms = float(seconds) * 1000.0
        self.sleep_calls.append(ms)
        self.trace.raw.append((self.now_ms, self.phase, "DLY", ms))
        self.trace.delays += 1
        self.now_ms += ms

    # -- pins
    def pin(self, pin, level: int) -> None:
        pin = int(pin)
        level = int(level)
        self.trace.raw.append((self.now_ms, self.phase, "PIN", (pin, level)))
        if self.pin_level.get(pin, 0) != level:
            self.pin_level[pin] = level
            self.trace.add(f"pin:{pin}", self.phase, level, self.now_ms)

    def event(self, channel: str, value) -> None:
        if len(self.trace.raw) > 20000 or (isinstance(value, str) and len(value) > 900):
            raise HostBudgetExceeded()
        self.trace.raw.append((self.now_ms, self.phase, channel, value))
        self.trace.add(channel, self.phase, value, self.now_ms)

    # -- world inputs
    def din(self, pin: int) -> int:
        seq = (self.world.get("din") or {}).get(str(pin))
        if seq is None:
            seq = (self.world.get("din") or {}).get(pin)
        if not seq:
            return 0
        idx = self.phase + 1  # setup -> 0, pass k -> k + 1
        return 1 if seq[min(idx, len(seq) - 1)] else 0

    def ain(self, pin: int) -> int:
        table = self.world.get("ain") or {}
        seq = table.get(str(pin))
        if seq is None:
            seq = table.get(pin)
        if not seq:
            return 0
        pos = self.ain_pos.get(pin, 0)
        self.ain_pos[pin] = pos + 1
        return int(seq[min(pos, len(seq) - 1)])

    def sample_live(self) -> None:
        total = 0
        for key, value in (self.namespace or {}).items():
            if key.startswith("__"):
                continue
            if isinstance(value, (list, str)):
                total += len(value)
                if isinstance(value, list):
                    total += sum(len(x) for x in value if isinstance(x, str))
        self.live_samples.append(total)

    def pass_hook(self) -> None:
        self.sample_live()
        k = self.phase + 1
        if k >= self.passes:
            raise StopSimulation()
        gaps = self.world.get("gaps") or []
        if gaps:
            self.now_ms += gaps[min(k, len(gaps) - 1)] / 1000.0
        self.phase = k
        self.trace.raw.append((self.now_ms, k, "PASS", k))
        self.trace.add("phase", k, "pass", self.now_ms)


_CURRENT: Optional[_Recorder] = None


def _rec() -> Optional[_Recorder]:
    return _CURRENT


# ------------------------------------------------------------------ seams


class _VirtualTime:
    """Stands in for the ``time`` module inside Reduino.Utils."""

    @staticmethod
    def sleep(seconds: float) -> None:
        rec = _rec()
        if rec is not None:
            rec.sleep_seconds(seconds)

    @staticmethod
    def time() -> float:
        rec = _rec()
        return (rec.now_ms / 1000.0) if rec is not None else 0.0

    @staticmethod
    def monotonic() -> float:
        return _VirtualTime.time()


class _FakeSerialPort:
    def __init__(self, port=None, baudrate=9600, timeout=None, **_kw) -> None:
        self.port = port
        self.baudrate = baudrate
        self.timeout = timeout
        self.is_open = True
        self.written: List[bytes] = []
        self.inbox: List[bytes] = []

    def write(self, payload: bytes) -> int:
        self.written.append(bytes(payload))
        return len(payload)

    def readline(self) -> bytes:
        return self.inbox.pop(0) if self.inbox else b""

    def close(self) -> None:
        self.is_open = False


class _FakeSerialModule:
    Serial = _FakeSerialPort


def _analog_pin_number(pin) -> int:
    if isinstance(pin, str):
        text = pin.strip()
        if text.startswith("A") and text[1:].isdigit():
            return 14 + int(text[1:])
        if text.isdigit():
            return int(text)
        return -1
    return int(pin)


_REAL_BUTTON = _sens.Button
_REAL_POT = _sens.Potentiometer
_REAL_ULTRASONIC = _sens.Ultrasonic


def _button_factory(pin, *args, **kwargs):
    if "state_provider" not in kwargs and len(args) < 2:
        kwargs["state_provider"] = lambda p=pin: bool(_rec().din(int(p))) if _rec() else False
    return _REAL_BUTTON(pin, *args, **kwargs)


def _pot_factory(pin="A0", *args, **kwargs):
    if "value_provider" not in kwargs:
        number = _analog_pin_number(pin)
        kwargs["value_provider"] = lambda n=number: _rec().ain(n) if _rec() else 0
    return _REAL_POT(pin, *args, **kwargs)


_INSTALLED = False


def _wrap_method(cls, name, after):
    original = getattr(cls, name)
    if getattr(original, "__dst_wrapped__", False):
        return

    @functools.wraps(original)
    def wrapper(self, *args, **kwargs):
        result = original(self, *args, **kwargs)
        rec = _rec()
        if rec is not None and not getattr(rec, "no_log", False):
            after(rec, self, result)
        return result

    wrapper.__dst_wrapped__ = True
    setattr(cls, name, wrapper)


def _motor_emit(rec: _Recorder, motor: DCMotor, _result=None) -> None:
    in1, in2, enable = motor.pins
    mode = motor._mode
    applied = motor._applied_speed
    if mode == "drive":
        duty = int(abs(applied) * 255.0 + 0.5)
        a, b = (255, 0) if applied > 0 else (0, 255)
    elif mode == "brake":
        duty, a, b = 0, 255, 255
    else:
        duty, a, b = 0, 0, 0
    rec.pin(in1, a)
    rec.pin(in2, b)
    rec.pin(enable, duty)


def install() -> None:
    """Install the seams once per process (idempotent)."""

    global _INSTALLED
    if _INSTALLED:
        return
    _INSTALLED = True
    if not hasattr(Reduino, "__dst_real_target__"):
        Reduino.__dst_real_target__ = Reduino.target
    Reduino.target = lambda *a, **k: ""
    _utils.time = _VirtualTime
    _comm.serial = _FakeSerialModule

    _wrap_method(Led, "set_brightness", lambda rec, led, _r: rec.pin(led.pin, led.brightness))

    def _rgb(rec, rgb, _r):
        for pin, level in zip(rgb.pins, rgb.get_color()):
            rec.pin(pin, level)

    _wrap_method(RGBLed, "set_color", _rgb)
    _wrap_method(Servo, "write", lambda rec, s, _r: rec.event(f"servo:{s.pin}", ("WRITE", int(s.read() + 0.5))))
    _wrap_method(
        Servo, "write_us", lambda rec, s, _r: rec.event(f"servo:{s.pin}", ("WRITEUS", int(s.read_us() + 0.5)))
    )
    _wrap_method(DCMotor, "_apply_speed", _motor_emit)
    _wrap_method(DCMotor, "stop", _motor_emit)
    _wrap_method(DCMotor, "coast", _motor_emit)
    def _ser(rec, mon, text):
        text = str(text)
        if text.startswith("@"):
            # sync marker: snapshot every LCD model (the mock board dumps its cell matrices on the same line)
            snap = []
            for lcd in rec.lcds:
                snap.append(
                    {
                        "rows": list(lcd.buffer),
                        "display": bool(lcd.display_on),
                        "backlight": bool(lcd.backlight_on),
                        "brightness": int(lcd.brightness_level),
                        "glyphs": {int(k): list(v) for k, v in lcd.glyphs.items()},
                    }
                )
            rec.trace.raw.append((rec.now_ms, rec.phase, "SYNC", (text, snap)))
            return
        # what reaches the wire is text + newline: an embedded newline makes several lines
        for part in text.split("\n"):
            rec.event("ser", part)

    _wrap_method(SerialMonitor, "write", _ser)

    def _lcd_init(rec, lcd, _r):
        rec.lcds.append(lcd)

    _wrap_method(LCD, "__init__", _lcd_init)


def _core_wrappers():
    """Logging shims for Reduino.Core functions placed in the script namespace by import."""

    def digital_write(pin, value):
        _core_real["digital_write"](pin, value)
        rec = _rec()
        if rec is not None:
            rec.pin(_analog_pin_number(pin), 255 if value else 0)

    def analog_write(pin, value):
        _core_real["analog_write"](pin, value)
        rec = _rec()
        if rec is not None:
            rec.pin(_analog_pin_number(pin), _core_real["analog_read"](pin))

    return {"digital_write": digital_write, "analog_write": analog_write}


_core_real = {
    "digital_write": _core.digital_write,
    "analog_write": _core.analog_write,
    "analog_read": _core.analog_read,
    "digital_read": _core.digital_read,
}


def _reset_module_state() -> None:
    _core._pin_modes.clear()
    _core._digital_values.clear()
    _core._analog_values.clear()


class _InsertPassHook(ast.NodeTransformer):
    def __init__(self) -> None:
        self.inserted = 0

    def visit_Module(self, node: ast.Module):
        for stmt in node.body:
            if (
                isinstance(stmt, ast.While)
                and isinstance(stmt.test, ast.Constant)
                and stmt.test.value is True
            ):
                hook = ast.Expr(
                    value=ast.Call(func=ast.Name(id="__dst_pass__", ctx=ast.Load()), args=[], keywords=[])
                )
                stmt.body.insert(0, hook)
                self.inserted += 1
        return node


class HostResult:
    def __init__(self, trace: Trace, error: Optional[str], namespace: Optional[dict], recorder: _Recorder):
        self.trace = trace
        self.error = error
        self.namespace = namespace
        self.recorder = recorder


def run_host(
    script: str,
    world: dict,
    passes: int,
    *,
    budget: int = 60000,
    keep_namespace: bool = False,
) -> HostResult:
    """Execute ``script`` for setup + ``passes`` loop passes in ``world``."""

    global _CURRENT
    install()
    _reset_module_state()
    rec = _Recorder(world, passes, budget)
    try:
        tree = ast.parse(script)
    except SyntaxError as exc:
        return HostResult(rec.trace, f"SyntaxError: {exc}", None, rec)
    hooker = _InsertPassHook()
    tree = hooker.visit(tree)
    ast.fix_missing_locations(tree)
    code = compile(tree, "<dst-script>", "exec")

    namespace = {"__name__": "__main__", "__dst_pass__": rec.pass_hook}
    rec.namespace = namespace

    # sensor constructors with world-driven providers; Core helpers with loggers
    saved = (_sens.Button, _sens.Potentiometer, _core.digital_write, _core.analog_write)
    _sens.Button = _button_factory
    _sens.Potentiometer = _pot_factory
    shims = _core_wrappers()
    _core.digital_write = shims["digital_write"]
    _core.analog_write = shims["analog_write"]

    def tracer(frame, event, arg):
        if frame.f_code.co_filename != "<dst-script>":
            return None
        return line_tracer

    def line_tracer(frame, event, arg):
        if event == "line":
            rec.steps += 1
            if rec.steps > rec.budget:
                raise HostBudgetExceeded()
        return line_tracer

    error: Optional[str] = None
    _CURRENT = rec
    old_trace = sys.gettrace()
    sink = io.StringIO()
    try:
        sys.settrace(tracer)
        with contextlib.redirect_stdout(sink), contextlib.redirect_stderr(sink):
            exec(code, namespace)
        # a script without `while True:` simply ends after setup; loop() is then empty
        while True:
            rec.pass_hook()
    except StopSimulation:
        pass
    except HostBudgetExceeded:
        error = "budget"
    except RecursionError:
        error = "RecursionError"
    except Exception as exc:  # the script is not well defined in this world
        error = f"{type(exc).__name__}: {exc}"
    finally:
        sys.settrace(old_trace)
        _CURRENT = None
        _sens.Button, _sens.Potentiometer, _core.digital_write, _core.analog_write = saved
    rec.sample_live()
    rec.trace.add("phase", rec.phase, "end", rec.now_ms)
    rec.trace.end_ms = rec.now_ms
    return HostResult(rec.trace, error, namespace if keep_namespace else None, rec)
