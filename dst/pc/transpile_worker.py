"""Fresh-interpreter transpile worker used by the C10 engine.

stdin : JSON {"scripts": [...], "history": [["parse", i] | ["emit", i] | ["both", i], ...]}
stdout: JSON {"digests": {i: [sha, ...]}, "errors": {...}}
The interpreter's PYTHONHASHSEED is chosen by the parent: it is the nondeterminism under test.
"""

from __future__ import annotations

import hashlib
import json
import sys


def main() -> int:
    from dst.core.common import setup_repo_import

    setup_repo_import()
    from Reduino.transpile.emitter import emit
    from Reduino.transpile.parser import parse

    job = json.loads(sys.stdin.read())
    scripts = job["scripts"]
    programs = {}
    digests = {}

    def record(i, text):
        digests.setdefault(str(i), []).append(hashlib.sha256(text.encode("utf-8")).hexdigest()[:24])

    for op, i in job["history"]:
        try:
            if op == "parse":
                programs[i] = parse(scripts[i])
            elif op == "emit":
                if i in programs:
                    record(i, emit(programs[i]))
            else:
                record(i, emit(parse(scripts[i])))
        except Exception as exc:  # a rejection must be deterministic as well
            record(i, f"!{type(exc).__name__}: {exc}")
    json.dump({"digests": digests}, sys.stdout)
    return 0


if __name__ == "__main__":
    sys.exit(main())
