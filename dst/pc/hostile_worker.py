"""Worker process for the C11 engine: transpiles untrusted texts with every I/O seam turned
into a tripwire.  Runs under RLIMIT_CPU / RLIMIT_AS set by itself; announces each text on
stdout *before* starting it so that a kill is attributed to exactly one text.

stdin : JSON {"texts": [str...], "canary_dir": str, "cpu_s": int}
stdout: lines  START i  /  DONE i <json>
"""

from __future__ import annotations

import json
import os
import resource
import sys


class _Budget(BaseException):
    pass


def main() -> int:
    job = json.loads(sys.stdin.read())
    cpu = int(job.get("cpu_s", 20))
    resource.setrlimit(resource.RLIMIT_CPU, (cpu, cpu + 2))
    mem = 3 * 1024 * 1024 * 1024
    resource.setrlimit(resource.RLIMIT_AS, (mem, mem))
    sys.setrecursionlimit(1000)

    from dst.core.common import setup_repo_import

    setup_repo_import()
    import Reduino.transpile.emitter as emitter
    import Reduino.transpile.parser as parser

    canary_dir = job["canary_dir"]
    os.makedirs(canary_dir, exist_ok=True)

    events = []
    state = {"active": False, "steps": 0, "budget": 0}
    # tripwires: everything that touches files, processes, the network, the import system, the
    # environment or runs code; the monitor's own tracer events (sys.settrace, frame attribute
    # reads) and ast.parse's "compile" are not on the list
    watched_exact = {"open", "exec", "import", "builtins.input", "builtins.breakpoint", "code.__new__", "marshal.loads",
                     "pickle.find_class", "time.sleep", "ctypes.dlopen", "sys.addaudithook", "signal.pthread_kill"}
    watched_prefix = ("os.", "subprocess.", "socket.", "shutil.", "tempfile.", "urllib.", "http.", "ftplib.", "smtplib.",
                      "webbrowser.", "glob.", "pathlib.", "mmap.", "fcntl.", "sqlite3.", "cpython.run", "winreg.", "msvcrt.")

    def hook(event, args):
        if not state["active"]:
            return
        if event not in watched_exact and not event.startswith(watched_prefix):
            return
        # lookups the interpreter itself performs while building a SyntaxError for "<unknown>"/"<string>"
        if event == "open" and args and isinstance(args[0], str) and args[0] in ("<unknown>", "<string>", "<fstring>"):
            return
        events.append((event, repr(args)[:160]))

    sys.addaudithook(hook)

    def tracer(frame, event, arg):
        if "/Reduino/" not in frame.f_code.co_filename:
            return None
        return line_tracer

    def line_tracer(frame, event, arg):
        if event == "line":
            state["steps"] += 1
            if state["steps"] > state["budget"]:
                raise _Budget()
        return line_tracer

    def snapshot():
        snap = {}
        for mod in (parser, emitter):
            for k, v in vars(mod).items():
                if k.startswith("__"):
                    continue
                if isinstance(v, (dict, list, set, frozenset, tuple, str, int, float)):
                    try:
                        snap[(mod.__name__, k)] = repr(sorted(v, key=repr)) if isinstance(v, (set, frozenset)) else repr(v)
                    except Exception:
                        snap[(mod.__name__, k)] = "?"
        return snap

    # warm-up: lazy imports and caches are filled by a benign script first
    warm = "from Reduino import target\ntarget('COM3')\nx = 1\nwhile True:\n    x += 1\n"
    for _ in range(2):
        emitter.emit(parser.parse(warm))
    # the tokenizer imports unicodedata on the first non-ASCII identifier: interpreter-internal
    import ast as _ast
    import unicodedata  # noqa: F401

    for sample in ("é = 1\n", "x = 'ünï'\n", "x = '\\N{BULLET}'\n"):
        try:
            _ast.parse(sample)
        except SyntaxError:
            pass

    out = sys.stdout
    for i, text in enumerate(job["texts"]):
        out.write(f"START {i}\n")
        out.flush()
        before_env = dict(os.environ)
        before_state = snapshot()
        before_cwd = os.getcwd()
        del events[:]
        state["steps"] = 0
        state["budget"] = 400000 + 3000 * len(text)
        result = {"i": i}
        state["active"] = True
        sys.settrace(tracer)
        try:
            cpp = emitter.emit(parser.parse(text))
            result["kind"] = "str" if isinstance(cpp, str) else f"returned {type(cpp).__name__}"
        except _Budget:
            result["kind"] = "budget"
        except BaseException as exc:  # noqa: BLE001 - every type is reported to the judge
            result["kind"] = "exc"
            result["exc_type"] = type(exc).__name__
            result["exc_mro"] = [c.__name__ for c in type(exc).__mro__]
            result["exc_msg"] = str(exc)[:160]
        finally:
            sys.settrace(None)
            state["active"] = False
        result["steps"] = state["steps"]
        result["events"] = events[:6]
        result["env_changed"] = dict(os.environ) != before_env
        result["cwd_changed"] = os.getcwd() != before_cwd
        after_state = snapshot()
        changed = [f"{m}.{k}" for (m, k) in before_state if after_state.get((m, k)) != before_state[(m, k)]]
        changed += [f"{m}.{k}" for (m, k) in after_state if (m, k) not in before_state]
        result["state_changed"] = changed[:5]
        result["canary"] = sorted(os.listdir(canary_dir))[:3]
        for name in os.listdir(canary_dir):
            try:
                os.unlink(os.path.join(canary_dir, name))
            except OSError:
                pass
        os.environ.clear()
        os.environ.update(before_env)
        out.write(f"DONE {i} {json.dumps(result)}\n")
        out.flush()
    return 0


if __name__ == "__main__":
    sys.exit(main())
