"""The author's PC as a simulated machine: sandboxed file system with fault injection, a fake
PlatformIO CLI behind subprocess.run, a fake tempfile.mkdtemp, and an effect recorder.

Only the seams are replaced; `Reduino.target`, `write_project`, `compile_upload`,
`ensure_pio`, `validate_platform_board`, `parse` and `emit` run unmodified.
"""

from __future__ import annotations

import os
import pathlib
import shutil
import subprocess
import sys
import types
from contextlib import contextmanager
from typing import Callable, Dict, List, Optional

from dst.core.common import WORK


class InjectedFault(OSError):
    """An I/O error injected by the simulator."""


class Effects:
    def __init__(self) -> None:
        self.log: List[tuple] = []

    def add(self, *entry) -> None:
        self.log.append(tuple(entry))

    def kinds(self) -> List[str]:
        return [e[0] for e in self.log]


def sandbox_root() -> pathlib.Path:
    d = WORK / "sandbox" / str(os.getpid())
    d.mkdir(parents=True, exist_ok=True)
    return d


def fresh_sandbox(tag: str) -> pathlib.Path:
    d = sandbox_root() / tag
    if d.exists():
        shutil.rmtree(d)
    d.mkdir(parents=True)
    return d


def listing(root: pathlib.Path) -> Dict[str, Optional[bytes]]:
    out: Dict[str, Optional[bytes]] = {}
    for path in sorted(root.rglob("*")):
        rel = str(path.relative_to(root))
        out[rel] = path.read_bytes() if path.is_file() else None
    return out


@contextmanager
def pc_world(
    effects: Effects,
    sandbox: pathlib.Path,
    *,
    pio_present: bool = True,
    faults: Optional[Dict[str, bool]] = None,
    build_hook: Optional[Callable[[pathlib.Path], int]] = None,
    main_file: Optional[pathlib.Path] = None,
):
    """Install the PC seams for the duration of one simulated `target()` call."""

    import tempfile

    import Reduino
    import Reduino.toolchain.pio as pio

    faults = faults or {}
    real_run = subprocess.run
    real_mkdtemp = tempfile.mkdtemp
    real_mkdir = pathlib.Path.mkdir
    real_write_text = pathlib.Path.write_text
    real_read_text = pathlib.Path.read_text
    counter = {"mkdtemp": 0}

    def inside(path) -> bool:
        try:
            pathlib.Path(path).resolve().relative_to(sandbox.resolve())
            return True
        except ValueError:
            return False

    def fake_run(cmd, *args, **kwargs):
        argv = list(cmd) if not isinstance(cmd, str) else cmd.split()
        cwd = kwargs.get("cwd")
        effects.add("run", tuple(argv), str(cwd) if cwd is not None else None)
        if not argv or argv[0] != "pio":
            raise AssertionError(f"unexpected subprocess: {argv}")
        if not pio_present:
            raise FileNotFoundError(2, "No such file or directory", "pio")
        rc = 0
        if argv[1:] == ["--version"]:
            rc = 1 if faults.get("pio_nonzero") else 0
        elif argv[1:] == ["run"]:
            if faults.get("build_fail"):
                rc = 1
            elif build_hook is not None and cwd is not None:
                rc = build_hook(pathlib.Path(cwd))
        elif argv[1:] == ["run", "-t", "upload"]:
            rc = 1 if faults.get("upload_fail") else 0
        else:
            raise AssertionError(f"unexpected pio invocation: {argv}")
        if rc != 0 and kwargs.get("check"):
            raise subprocess.CalledProcessError(rc, argv)
        return subprocess.CompletedProcess(argv, rc)

    def fake_mkdtemp(suffix=None, prefix=None, dir=None):
        if faults.get("mkdtemp_fail"):
            effects.add("mkdtemp_fail")
            raise InjectedFault(28, "No space left on device (injected)")
        counter["mkdtemp"] += 1
        path = sandbox / "tmp" / f"{prefix or 'tmp'}{counter['mkdtemp']:03d}"
        real_mkdir(path, parents=True, exist_ok=False)
        effects.add("mkdtemp", str(path))
        return str(path)

    def fake_mkdir(self, *args, **kwargs):
        if inside(self):
            if faults.get("mkdir_fail"):
                effects.add("mkdir_fail", str(self))
                raise InjectedFault(13, "Permission denied (injected)", str(self))
            effects.add("mkdir", str(self))
        return real_mkdir(self, *args, **kwargs)

    def fake_write_text(self, data, *args, **kwargs):
        if inside(self):
            name = self.name
            if (name == "main.cpp" and faults.get("write_main_fail")) or (
                name == "platformio.ini" and faults.get("write_ini_fail")
            ):
                effects.add("write_fail", str(self))
                raise InjectedFault(28, "No space left on device (injected)", str(self))
            effects.add("write", str(self))
        return real_write_text(self, data, *args, **kwargs)

    def fake_read_text(self, *args, **kwargs):
        if main_file is not None and pathlib.Path(self) == main_file:
            if faults.get("main_unreadable"):
                effects.add("read_fail", str(self))
                raise InjectedFault(13, "Permission denied (injected)", str(self))
            effects.add("read", str(self))
        return real_read_text(self, *args, **kwargs)

    main_mod = sys.modules["__main__"]
    had_file = hasattr(main_mod, "__file__")
    old_file = getattr(main_mod, "__file__", None)
    pio.subprocess = types.SimpleNamespace(
        run=fake_run, DEVNULL=subprocess.DEVNULL, CalledProcessError=subprocess.CalledProcessError, PIPE=subprocess.PIPE
    )
    tempfile.mkdtemp = fake_mkdtemp
    pathlib.Path.mkdir = fake_mkdir
    pathlib.Path.write_text = fake_write_text
    pathlib.Path.read_text = fake_read_text
    if main_file is not None:
        main_mod.__file__ = str(main_file)
    try:
        yield
    finally:
        pio.subprocess = subprocess
        tempfile.mkdtemp = real_mkdtemp
        pathlib.Path.mkdir = real_mkdir
        pathlib.Path.write_text = real_write_text
        pathlib.Path.read_text = real_read_text
        if had_file:
            main_mod.__file__ = old_file
        elif hasattr(main_mod, "__file__"):
            del main_mod.__file__
