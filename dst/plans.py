"""Which engines decide which property, and how many runs each tier gets."""

from __future__ import annotations

from typing import Dict, List

from dst.engines.e1_diff import E1Core

LEVELS: Dict[str, str] = {}

_E1_CORE = E1Core()

PLANS: Dict[str, List[dict]] = {
    "C01": [{"engine": _E1_CORE, "quick": 320, "thorough": 6000, "quick_wall_s": 150, "thorough_wall_s": 1500}],
}


def all_engines():
    seen = {}
    for plan in PLANS.values():
        for entry in plan:
            seen[entry["engine"].name] = entry["engine"]
    return list(seen.values())
