"""Which engines decide which property, and how many runs each tier gets."""

from __future__ import annotations

from typing import Dict, List

from dst.engines.e1_diff import E1Core, E1Persist, E1Layout, E1Types, E2Actuators, E2Clamp, E2Meta, E7Heap
from dst.engines.e2_shapes import E2Shapes
from dst.engines.e3_phases import E3Phases
from dst.engines.e4_inputs import E4Inputs
from dst.engines.e5_buzzer import E5Buzzer
from dst.engines.e6_lcd import E6Anim, E6Text
from dst.engines.e8_host import E8Actuators, E8Helpers
from dst.engines.e9_pc import E9Determinism, E9Hostile, E9Project, E9Target

LEVELS: Dict[str, str] = {"C12": "fault_enumeration"}

_E1_CORE = E1Core()
_E2_ACT = E2Actuators()
_E2_CLAMP = E2Clamp()
_E3 = E3Phases()
_E2_SHAPES = E2Shapes()
_E6_TEXT = E6Text()
_E6_ANIM = E6Anim()
_E5 = E5Buzzer()
_E4 = E4Inputs()
_E1_PERSIST = E1Persist()
_E7 = E7Heap()
_E1_LAYOUT = E1Layout()
_E1_TYPES = E1Types()
_E2_META = E2Meta()
_E8_ACT = E8Actuators()
_E8_HELP = E8Helpers()
_E9_TARGET = E9Target()
_E9_PROJECT = E9Project()
_E9_DET = E9Determinism()
_E9_HOSTILE = E9Hostile()

PLANS: Dict[str, List[dict]] = {
    "C01": [{"engine": _E1_CORE, "quick": 2400, "thorough": 40000, "quick_wall_s": 150, "thorough_wall_s": 1500}],
    "C02": [{"engine": _E1_TYPES, "quick": 2200, "thorough": 40000, "quick_wall_s": 120, "thorough_wall_s": 1500}],
    "C03": [{"engine": _E2_META, "quick": 1500, "thorough": 25000, "quick_wall_s": 120, "thorough_wall_s": 1500}],
    "C04": [
        {"engine": _E2_ACT, "quick": 1800, "thorough": 30000, "quick_wall_s": 100, "thorough_wall_s": 1200},
        {"engine": _E2_CLAMP, "quick": 800, "thorough": 10000, "quick_wall_s": 60, "thorough_wall_s": 600},
    ],
    "C05": [
        {"engine": _E3, "quick": 1500, "thorough": 25000, "quick_wall_s": 90, "thorough_wall_s": 900},
        {"engine": _E1_PERSIST, "quick": 800, "thorough": 10000, "quick_wall_s": 60, "thorough_wall_s": 600},
    ],
    "C07": [{"engine": _E1_LAYOUT, "quick": 1800, "thorough": 30000, "quick_wall_s": 120, "thorough_wall_s": 1500}],
    "C08": [{"engine": _E2_SHAPES, "quick": 1195, "thorough": 1195, "quick_wall_s": 150, "thorough_wall_s": 600}],
    "C09": [{"engine": _E7, "quick": 700, "thorough": 12000, "quick_wall_s": 120, "thorough_wall_s": 1500}],
    "C10": [{"engine": _E9_DET, "quick": 160, "thorough": 1500, "quick_wall_s": 120, "thorough_wall_s": 1200}],
    "C11": [{"engine": _E9_HOSTILE, "quick": 400, "thorough": 6000, "quick_wall_s": 120, "thorough_wall_s": 1200}],
    "C12": [{"engine": _E9_TARGET, "quick": 960, "thorough": 20000, "quick_wall_s": 120, "thorough_wall_s": 900}],
    "C13": [{"engine": _E9_PROJECT, "quick": 4000, "thorough": 60000, "quick_wall_s": 90, "thorough_wall_s": 600}],
    "C15": [{"engine": _E4, "quick": 2000, "thorough": 30000, "quick_wall_s": 120, "thorough_wall_s": 1500}],
    "C16": [{"engine": _E5, "quick": 2000, "thorough": 30000, "quick_wall_s": 120, "thorough_wall_s": 1500}],
    "C17": [{"engine": _E6_TEXT, "quick": 2000, "thorough": 30000, "quick_wall_s": 120, "thorough_wall_s": 1500}],
    "C18": [{"engine": _E6_ANIM, "quick": 1500, "thorough": 20000, "quick_wall_s": 120, "thorough_wall_s": 1500}],
    "C19": [{"engine": _E8_ACT, "quick": 60000, "thorough": 2000000, "quick_wall_s": 90, "thorough_wall_s": 900}],
    "C20": [{"engine": _E8_HELP, "quick": 40000, "thorough": 1000000, "quick_wall_s": 90, "thorough_wall_s": 900}],
}


def all_engines():
    seen = {}
    for plan in PLANS.values():
        for entry in plan:
            seen[entry["engine"].name] = entry["engine"]
    return list(seen.values())
