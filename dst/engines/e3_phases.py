"""E3 - temporal monitors over the simulated board's event log (C05).

Board only: devices declared at the top of the `while True:` body are re-created on every
pass by CPython, so there is no host trace to compare with; what the property states are
ordering facts about the firmware, checked as linear-time monitors over the log.
"""

from __future__ import annotations

import copy
import re
from typing import Dict, Iterable, List, Optional, Tuple

from dst.core.common import setup_repo_import, sha
from dst.core.runner import Engine, Outcome
from dst.core.trace import parse_board_log

setup_repo_import()

HOISTABLE = ["led", "rgb", "servo", "motor", "button", "pot", "ultrasonic"]


class PhaseGen:
    def __init__(self, rng, tier: str) -> None:
        self.rng = rng
        self.tier = tier
        self.pins = list(range(2, 14)) + list(range(22, 46))
        rng.shuffle(self.pins)
        self.analog = [0, 1, 2, 3, 4, 5]
        rng.shuffle(self.analog)
        self.devices: Dict[str, dict] = {}
        self.n = 0
        self.no_millis_users = False

    def pin(self) -> int:
        return self.pins.pop()

    def name(self, prefix: str) -> str:
        self.n += 1
        return f"{prefix}{self.n}"

    def decl(self, kind: str, where: str) -> str:
        r = self.rng
        nm = self.name(kind[:3])
        d = {"kind": kind, "where": where}
        if kind == "led":
            d["pin"] = self.pin()
            text = f"{nm} = Led({d['pin']})"
        elif kind == "rgb":
            d["pins"] = [self.pin() for _ in range(3)]
            text = f"{nm} = RGBLed({d['pins'][0]}, {d['pins'][1]}, {d['pins'][2]})"
        elif kind == "servo":
            d["pin"] = self.pin()
            text = f"{nm} = Servo({d['pin']})"
        elif kind == "motor":
            d["pins"] = [self.pin() for _ in range(3)]
            text = f"{nm} = DCMotor({d['pins'][0]}, {d['pins'][1]}, {d['pins'][2]})"
        elif kind == "button":
            d["pin"] = self.pin()
            d["on_click"] = r.random() < 0.5
            text = f"{nm} = Button({d['pin']}, on_click=press)" if d["on_click"] else f"{nm} = Button({d['pin']})"
        elif kind == "pot":
            d["ch"] = self.analog.pop()
            text = f'{nm} = Potentiometer("A{d["ch"]}")'
        elif kind == "ultrasonic":
            d["trig"], d["echo"] = self.pin(), self.pin()
            text = f"{nm} = Ultrasonic({d['trig']}, {d['echo']})"
        elif kind == "buzzer":
            d["pin"] = self.pin()
            text = f"{nm} = Buzzer({d['pin']})"
        elif kind == "lcd":
            d["i2c"] = r.random() < 0.5
            d["anims"] = 0
            if d["i2c"]:
                text = f"{nm} = LCD(i2c_addr=0x27, cols=16, rows=2)"
            else:
                d["pins"] = [self.pin() for _ in range(6)]
                p = d["pins"]
                d["backlight"] = self.pin() if r.random() < 0.5 else None
                bl = f", backlight_pin={d['backlight']}" if d["backlight"] is not None else ""
                text = f"{nm} = LCD(rs={p[0]}, en={p[1]}, d4={p[2]}, d5={p[3]}, d6={p[4]}, d7={p[5]}{bl})"
        else:
            raise ValueError(kind)
        self.devices[nm] = d
        return text

    def use(self, nm: str) -> Optional[str]:
        r = self.rng
        d = self.devices[nm]
        k = d["kind"]
        if k == "led":
            return r.choice([f"{nm}.on()", f"{nm}.off()", f"{nm}.toggle()", f"{nm}.set_brightness({r.randint(0, 255)})"])
        if k == "rgb":
            return r.choice([f"{nm}.set_color(1, 2, 3)", f"{nm}.on()", f"{nm}.off()"])
        if k == "servo":
            return r.choice([f"{nm}.write({r.randint(0, 180)})", f"{nm}.write_us({r.randint(544, 2400)})"])
        if k == "motor":
            return r.choice([f"{nm}.set_speed(0.5)", f"{nm}.backward()", f"{nm}.stop()", f"{nm}.coast()", f"{nm}.invert()"])
        if k == "button":
            return f"mon.write({nm}.is_pressed())"
        if k == "pot":
            return f"mon.write({nm}.read())"
        if k == "ultrasonic":
            # measure_distance() reads millis() too; keep it out of scripts that count animation ticks
            return None if self.no_millis_users else f"mon.write({nm}.measure_distance())"
        if k == "buzzer":
            return r.choice([f"{nm}.play_tone(440, 5)", f"{nm}.beep(880, on_ms=2, off_ms=1, times=1)", f"{nm}.stop()"])
        if k == "lcd":
            return r.choice([f'{nm}.line(0, "t{r.randint(0, 9)}")', f'{nm}.write(1, 1, "x")', f"{nm}.clear()"])
        return None

    def generate(self) -> dict:
        r = self.rng
        lines = [
            "from Reduino import target", 'target("COM3")', "from Reduino.Communication import SerialMonitor",
            "from Reduino.Utils import sleep", "from Reduino.Actuators import Led, RGBLed, Servo, DCMotor, Buzzer",
            "from Reduino.Sensors import Button, Potentiometer, Ultrasonic", "from Reduino.Displays import LCD",
            'mon = SerialMonitor(9600, "COM3")', "def press():", '    mon.write("CLICK")',
        ]
        setup_kinds = [k for k in HOISTABLE + ["buzzer", "lcd"] if r.random() < 0.45]
        loop_kinds = [k for k in HOISTABLE if r.random() < 0.3]
        if not setup_kinds and not loop_kinds:
            setup_kinds = ["led"]
        setup_names = []
        for k in setup_kinds:
            lines.append(self.decl(k, "setup"))
            setup_names.append(list(self.devices)[-1])
        n_anim = 0
        for nm in setup_names:
            d = self.devices[nm]
            if d["kind"] == "lcd" and r.random() < 0.7:
                for row in range(r.choice([1, 2])):
                    style = r.choice(["scroll", "blink", "typewriter", "bounce"])
                    call = f'{nm}.animate("{style}", {row}, "hello world", speed_ms={r.choice([0, 50, 200])}, loop=True)'
                    if r.random() < 0.4:
                        # started from inside a helper function: the injected ticks must cover it all the same
                        lines += [f"def start_anim{n_anim}():", "    " + call, f"start_anim{n_anim}()"]
                    else:
                        lines.append(call)
                    d["anims"] += 1
                    n_anim += 1
        self.no_millis_users = n_anim > 0
        s_markers = []
        lines.append("count = 0")
        for _ in range(r.randint(0, 6)):
            choice = r.random()
            if setup_names and choice < 0.7:
                stmt = self.use(r.choice(setup_names))
            elif choice < 0.85:
                stmt = f"sleep({r.choice([0, 1, 7])})"
            else:
                stmt = "count += 1"
            if stmt:
                lines.append(stmt)
            marker = f"S{len(s_markers)}"
            s_markers.append(marker)
            lines.append(f'mon.write("{marker}")')
        main_break = r.random() < 0.06
        has_loop = r.random() < 0.92
        l_markers = []
        loop_names = []
        if has_loop:
            lines.append("while True:")
            for k in loop_kinds:
                lines.append("    " + self.decl(k, "loop"))
                loop_names.append(list(self.devices)[-1])
            usable = setup_names + loop_names
            for _ in range(r.randint(1, 7)):
                choice = r.random()
                if usable and choice < 0.6:
                    stmt = self.use(r.choice(usable))
                    body = [stmt] if stmt else []
                elif choice < 0.7:
                    body = [f"sleep({r.choice([0, 1, 12])})"]
                elif choice < 0.85:
                    body = ["count += 1", "mon.write(count)"]
                else:
                    body = [f"for k{len(l_markers)} in range(3):", f"    if k{len(l_markers)} == 1:", "        break", f'    mon.write("in")']
                for b in body:
                    lines.append("    " + b)
                marker = f"L{len(l_markers)}"
                l_markers.append(marker)
                lines.append(f'    mon.write("{marker}")')
            if main_break:
                lines.append("    if count > 2:")
                lines.append("        break")
        if r.random() < 0.4:
            # comment-only lines at any indentation (also dedented to column 0 inside a block) never end a block
            first = lines.index("def press():") + 1
            out = lines[:first]
            for line in lines[first:]:
                if r.random() < 0.15:
                    out.append(r.choice(["", "", "    ", "        "]) + r.choice(["# note", "#", "# led.on()", "#while True:"]))
                out.append(line)
            lines = out
        passes = r.choice([0, 1, 2, 3, 5])
        world = {"passes": passes, "gaps": [r.choice([0, 0, 1000, 250000]) for _ in range(max(1, passes))]}
        if r.random() < 0.5:
            world["boot_us"] = r.choice([0, 2000, 90000])
        din = {}
        for nm, d in self.devices.items():
            if d["kind"] == "button":
                din[str(d["pin"])] = [r.randint(0, 1) for _ in range(passes + 1)]
            if d["kind"] == "ultrasonic":
                world.setdefault("pulse", {})[str(d["echo"])] = [r.choice([0, 500, 3000, 12000]) for _ in range(8)]
        world["din"] = din
        return {
            "script": "\n".join(lines) + "\n",
            "world": world,
            "devices": self.devices,
            "s_markers": s_markers,
            "l_markers": l_markers,
            "n_anim": n_anim,
            "main_break": main_break and has_loop,
        }


class E3Phases(Engine):
    name = "e3-phases"
    property_id = "C05"
    components_real = ["transpile.parser.parse", "transpile.emitter.emit (compiled natively)"]
    components_stub = ["Arduino core + libraries (mock with virtual clock, scripted pins, event log)"]
    assumptions = [
        "every device gets its own pins (two devices on one pin would re-configure it by construction)",
        "animations are started in setup with loop=True so that the number of active ticks per pass is known",
    ]
    rule = (
        "seeded scripts with 1-9 devices of all kinds declared before the main loop and (hoistable kinds) at the top "
        "of its body, a unique marker after every top-level statement, buttons with on_click, looping LCD animations, "
        "nested loops with break, occasionally a main-loop break (must be rejected), with and without `while True:`; "
        "N in 0..5 passes with seeded gaps, boot offsets, button levels and echo time-outs; monitors: run-once / "
        "once-per-pass markers in order, configure-before-use per pin and peripheral, no mode change, housekeeping "
        "exactly once per pass before user code; distinct = digest of the event-kind sequence"
    )

    def setup(self) -> None:
        from dst.board import build

        build.ensure_runtime("plain")

    def generate(self, rng, tier: str, avoid) -> dict:
        return PhaseGen(rng, tier).generate()

    def execute(self, case: dict) -> Outcome:
        from dst.board import build
        from dst.engines.e1_diff import transpile, _first_error

        try:
            cpp = transpile(case["script"])
        except ValueError as exc:
            if case.get("main_break"):
                return Outcome("ok", digest="rejected-main-break", nontrivial=True, probes={"main_break_rejected": 1})
            return Outcome("rejected", message=str(exc)[:200], probes={"rejected": 1})
        except Exception as exc:
            return Outcome("rejected", message=f"{type(exc).__name__}: {exc}"[:200], probes={"rejected_internal": 1})
        if case.get("main_break"):
            return Outcome("violation", cls="main-break-accepted", message="`break` at the level of the main loop was accepted")
        binary = None
        try:
            try:
                binary = build.build_sketch(cpp)
            except build.BuildError as exc:
                return Outcome("violation", cls="build", message="firmware does not build: " + _first_error(exc.stderr))
            run = build.run_sketch(binary, case["world"])
        finally:
            build.discard(binary)
        tr = parse_board_log(run.log, run.exit_code, run.stderr)
        if tr.status != "ok":
            return Outcome("violation", cls=f"status/{tr.status}", message=tr.detail[:300])
        msg = self.monitor(case, tr)
        if msg:
            return Outcome("violation", cls=msg[0], message=msg[1][:400])
        kinds = "".join(k[0] for _t, _p, k, _r in tr.raw)
        faults = {}
        w = case["world"]
        faults["boot_offset" if w.get("boot_us") else "boot_at_zero"] = 1
        if any(g >= 100000 for g in w.get("gaps", [])):
            faults["late_pass"] = 1
        if any(seq and seq[0] for seq in w.get("din", {}).values()):
            faults["button_held_at_boot"] = 1
        if any(0 in seq for seq in w.get("pulse", {}).values()):
            faults["echo_timeout"] = 1
        return Outcome("ok", digest=sha(kinds)[:16], nontrivial=bool(case["s_markers"] or case["l_markers"]),
                       sim_ms=tr.end_ms, faults=faults,
                       probes={"loop_declared": sum(1 for d in case["devices"].values() if d["where"] == "loop"), "devices": len(case["devices"])})

    @staticmethod
    def monitor(case: dict, tr) -> Optional[Tuple[str, str]]:
        devices = case["devices"]
        passes = int(case["world"].get("passes", 0))
        s_markers, l_markers = case["s_markers"], case["l_markers"]
        # ---- (1) markers
        seen_setup: List[str] = []
        seen_pass: Dict[int, List[str]] = {k: [] for k in range(passes)}
        for _t, phase, kind, rest in tr.raw:
            if kind != "SER":
                continue
            text = rest.partition(" ")[2]
            if re.fullmatch(r"[SL]\d+", text):
                if phase < 0:
                    seen_setup.append(text)
                else:
                    seen_pass.setdefault(phase, []).append(text)
        if seen_setup != s_markers:
            return ("setup-order", f"setup markers {seen_setup}, expected exactly {s_markers} once, in order, before the first pass")
        for k in range(passes):
            if seen_pass.get(k, []) != l_markers:
                return ("loop-order", f"pass {k} markers {seen_pass.get(k)}, expected {l_markers}")
        # ---- (2)+(3) configure before use, no mode change
        mode: Dict[int, str] = {}
        unconfigured = [r for _t, _p, k, r in tr.raw if k == "UNCONFIGURED"]
        if unconfigured:
            return ("configure-before-use", f"peripheral used before it was configured: {unconfigured[0]}")
        want_mode: Dict[int, str] = {}
        for nm, d in devices.items():
            k = d["kind"]
            if k in ("led", "servo", "buzzer"):
                if k != "servo":
                    want_mode[d["pin"]] = "OUTPUT"
            elif k in ("rgb", "motor"):
                for p in d["pins"]:
                    want_mode[p] = "OUTPUT"
            elif k == "button":
                want_mode[d["pin"]] = "INPUT_PULLUP"
            elif k == "pot":
                want_mode[14 + d["ch"]] = "INPUT"
            elif k == "ultrasonic":
                want_mode[d["trig"]] = "OUTPUT"
                want_mode[d["echo"]] = "INPUT"
            elif k == "lcd" and d.get("backlight") is not None:
                want_mode[d["backlight"]] = "OUTPUT"
        first_motor: Dict[str, List[Tuple[str, int, int]]] = {nm: [] for nm, d in devices.items() if d["kind"] == "motor"}
        motor_of: Dict[int, str] = {}
        for nm, d in devices.items():
            if d["kind"] == "motor":
                for p in d["pins"]:
                    motor_of[p] = nm
        for _t, phase, kind, rest in tr.raw:
            if kind == "PM":
                p, m = rest.split()
                p = int(p)
                if p in mode and mode[p] != m:
                    return ("mode-change", f"pin {p} re-configured from {mode[p]} to {m}")
                mode[p] = m
                if p in want_mode and want_mode[p] != m:
                    return ("mode-wrong", f"pin {p} configured as {m}, the device needs {want_mode[p]}")
            elif kind in ("DW", "AW", "TONE", "NOTONE", "DR", "AR", "PULSEIN"):
                p = int(rest.split()[0])
                if kind == "AR" and p < 8:
                    p += 14
                if p in want_mode and p not in mode:
                    return ("configure-before-use", f"{kind} on pin {p} before its pinMode")
                if kind in ("DW", "AW") and p in motor_of:
                    first_motor[motor_of[p]].append((kind, p, int(rest.split()[1])))
        for nm, evs in first_motor.items():
            pins = devices[nm]["pins"]
            head = evs[:3]
            if evs and head != [("DW", pins[0], 0), ("DW", pins[1], 0), ("AW", pins[2], 0)]:
                return ("motor-safe-stop", f"motor {nm} is not driven to a safe stop before its first command: {head}")
        servo_first = {}
        for _t, phase, kind, rest in tr.raw:
            if kind == "SERVO":
                sid, op = rest.split()[:2]
                servo_first.setdefault(sid, op)
        for sid, op in servo_first.items():
            if op != "ATTACH":
                return ("configure-before-use", f"servo {sid} first event is {op}")
        # ---- (4) housekeeping once per pass, before user code
        button_pins = [d["pin"] for d in devices.values() if d["kind"] == "button"]
        n_anim = case["n_anim"]
        by_pass: Dict[int, List[Tuple[str, str]]] = {}
        for _t, phase, kind, rest in tr.raw:
            if phase >= 0:
                by_pass.setdefault(phase, []).append((kind, rest))
        for k in range(passes):
            evs = by_pass.get(k, [])
            first_user = next((i for i, (kind, rest) in enumerate(evs) if kind in ("SER", "DLY", "SERVO", "TONE", "NOTONE", "AR", "PULSEIN", "DLYUS") or (kind in ("DW", "AW"))), len(evs))
            # the on_click handler prints CLICK from inside the poll: that is housekeeping, not user code
            head = []
            for kind, rest in evs:
                if kind == "SER" and rest.endswith(" CLICK"):
                    head.append((kind, rest))
                    continue
                if kind in ("PASS", "DR", "MILLIS") or kind == "LCD":
                    head.append((kind, rest))
                    continue
                break
            for p in button_pins:
                reads_total = sum(1 for kind, rest in evs if kind == "DR" and int(rest.split()[0]) == p)
                reads_head = sum(1 for kind, rest in head if kind == "DR" and int(rest.split()[0]) == p)
                if reads_total != 1 or reads_head != 1:
                    return ("button-poll", f"pass {k}: button pin {p} sampled {reads_total} times ({reads_head} before user code), expected exactly once before user code")
            if n_anim:
                ticks_head = sum(1 for kind, _r in head if kind == "MILLIS")
                ticks_total = sum(1 for kind, _r in evs if kind == "MILLIS")
                if ticks_head != n_anim or ticks_total != n_anim:
                    return ("lcd-tick", f"pass {k}: {ticks_total} animation ticks ({ticks_head} before user code), expected exactly {n_anim} before user code")
        return None

    def shrink_candidates(self, case: dict) -> Iterable[dict]:
        w = case["world"]
        if w.get("passes", 0) > 1:
            c = copy.deepcopy(case)
            c["world"]["passes"] = 1
            yield c
        lines = case["script"].splitlines()
        for i in range(len(lines) - 1, 9, -1):
            text = lines[i].strip()
            if re.fullmatch(r'mon\.write\("[SL]\d+"\)', text) or text.startswith("while True") or " = " in text and any(text.split(" = ")[0] == nm for nm in case["devices"]):
                continue
            if text.startswith(("for ", "if ")) or lines[i].startswith("        "):
                continue
            c = copy.deepcopy(case)
            c["script"] = "\n".join(lines[:i] + lines[i + 1 :]) + "\n"
            yield c

    def sample_view(self, case: dict) -> object:
        return {"script": case["script"], "world": case["world"]}
