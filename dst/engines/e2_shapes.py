"""C08 - call binding: every calling convention Python's binder accepts is either rejected by the
transpiler or bound to the same parameter values, observed as behaviour on the simulated board."""

from __future__ import annotations

import inspect
from typing import Dict, List, Optional, Tuple

from dst.core.common import setup_repo_import, sha
from dst.core.runner import Outcome
from dst.engines.e1_diff import ScriptEngine, transpile, _first_error

setup_repo_import()

HEAD = (
    'from Reduino import target\ntarget("COM3")\nfrom Reduino.Communication import SerialMonitor\n'
    "from Reduino.Utils import sleep\nfrom Reduino.Actuators import Led, RGBLed, Servo, DCMotor, Buzzer\n"
    "from Reduino.Sensors import Button, Potentiometer, Ultrasonic\nfrom Reduino.Displays import LCD\n"
    "from Reduino.Core import pin_mode, digital_write, analog_write, digital_read, analog_read, OUTPUT, INPUT, HIGH, LOW\n"
)
MON = 'mon = SerialMonitor(9600, "COM3")\n'


def _targets() -> List[dict]:
    from Reduino.Actuators import Buzzer, DCMotor, Led, RGBLed, Servo
    from Reduino.Communication.SerialMonitor import SerialMonitor
    from Reduino.Displays.LCD import LCD
    from Reduino.Sensors import Button, Potentiometer
    from Reduino.Sensors.Ultrasonic import Ultrasonic
    import Reduino.Core as core
    import Reduino.Utils as utils

    lcd_pre = ["lcd = LCD(rs=12, en=11, d4=5, d5=4, d6=3, d7=2, cols=16, rows=2, backlight_pin=9)"]
    T = []

    def add(key, fn, values, callee, *, pre=(), post=(), loop=(), mode="host", skip=(), world=None, assign=None, duty=()):
        T.append({"key": key, "fn": fn, "values": values, "callee": callee, "pre": list(pre), "post": list(post), "loop": list(loop),
                  "mode": mode, "skip": list(skip), "world": world or {}, "assign": assign, "duty": list(duty)})

    add("Led()", Led.__init__, {"pin": "5"}, "Led", assign="led", post=["led.on()"])
    add("Led.set_brightness", Led.set_brightness, {"value": "77"}, "led.set_brightness", pre=["led = Led(9)"])
    add("Led.blink", Led.blink, {"duration_ms": "7", "times": "3"}, "led.blink", pre=["led = Led(9)"])
    add("Led.fade_in", Led.fade_in, {"step": "60", "delay_ms": "3"}, "led.fade_in", pre=["led = Led(9)"])
    add("Led.fade_out", Led.fade_out, {"step": "60", "delay_ms": "3"}, "led.fade_out", pre=["led = Led(9)", "led.on()"])
    add("Led.flash_pattern", Led.flash_pattern, {"pattern": "[1, 0, 128]", "delay_ms": "4"}, "led.flash_pattern", pre=["led = Led(9)"])
    add("RGBLed()", RGBLed.__init__, {"red_pin": "3", "green_pin": "5", "blue_pin": "6"}, "RGBLed", assign="rgb", post=["rgb.set_color(10, 20, 30)"])
    rgb_pre = ["rgb = RGBLed(3, 5, 6)"]
    add("RGBLed.set_color", RGBLed.set_color, {"red": "10", "green": "20", "blue": "30"}, "rgb.set_color", pre=rgb_pre)
    add("RGBLed.on", RGBLed.on, {"red": "10", "green": "20", "blue": "30"}, "rgb.on", pre=rgb_pre)
    add("RGBLed.fade", RGBLed.fade, {"red": "10", "green": "20", "blue": "30", "duration_ms": "12", "steps": "3"}, "rgb.fade", pre=rgb_pre)
    add("RGBLed.blink", RGBLed.blink, {"red": "10", "green": "20", "blue": "30", "times": "2", "delay_ms": "4"}, "rgb.blink", pre=rgb_pre)
    add("Servo()", Servo.__init__, {"pin": "10", "min_angle": "10", "max_angle": "170", "min_pulse_us": "600", "max_pulse_us": "2300"}, "Servo",
        assign="sv", post=["sv.write(170)", "mon.write(sv.read_us())", "sv.write_us(600)", "mon.write(sv.read())"])
    add("Servo.write", Servo.write, {"angle": "33"}, "sv.write", pre=["sv = Servo(10)"])
    add("Servo.write_us", Servo.write_us, {"pulse": "1500"}, "sv.write_us", pre=["sv = Servo(10)"])
    add("DCMotor()", DCMotor.__init__, {"in1": "4", "in2": "7", "enable": "6"}, "DCMotor", assign="m", post=["m.set_speed(1.0)"], duty=[6])
    m_pre = ["m = DCMotor(4, 7, 6)"]
    add("DCMotor.set_speed", DCMotor.set_speed, {"value": "0.5"}, "m.set_speed", pre=m_pre, duty=[6])
    add("DCMotor.backward", DCMotor.backward, {"speed": "0.25"}, "m.backward", pre=m_pre, duty=[6])
    add("DCMotor.ramp", DCMotor.ramp, {"target_speed": "0.5", "duration_ms": "40"}, "m.ramp", pre=m_pre, duty=[6])
    add("DCMotor.run_for", DCMotor.run_for, {"duration_ms": "30", "speed": "0.75"}, "m.run_for", pre=m_pre, duty=[6])
    add("Button()", Button.__init__, {"pin": "7", "on_click": "press"}, "Button", assign="btn", pre=["def press():", '    mon.write("CLICK")'],
        loop=["mon.write(btn.is_pressed())"], skip=["state_provider"], world={"passes": 4, "din": {"7": [0, 1, 1, 0, 1], "4": [0, 0, 0, 0, 0]}})
    add("Potentiometer()", Potentiometer.__init__, {"pin": '"A2"'}, "Potentiometer", assign="pot", loop=["mon.write(pot.read())"], skip=["value_provider"],
        world={"passes": 2, "ain": {"16": [111, 222], "14": [5, 6]}})
    add("Ultrasonic(sensor)", Ultrasonic, {"trig": "7", "echo": "8", "sensor": '"HC-SR04"'}, "Ultrasonic", assign="u", loop=["mon.write(u.measure_distance())"],
        skip=["model", "distance_provider", "default_distance"], mode="canon", world={"passes": 2, "pulse": {"8": [1000, 2000], "7": [50, 60]}})
    add("Ultrasonic(model)", Ultrasonic, {"trig": "7", "echo": "8", "model": '"hc_sr04"'}, "Ultrasonic", assign="u", loop=["mon.write(u.measure_distance())"],
        skip=["sensor", "distance_provider", "default_distance"], mode="canon", world={"passes": 2, "pulse": {"8": [1000, 2000], "7": [50, 60]}})
    add("Buzzer()", Buzzer.__init__, {"pin": "3", "default_frequency": "660.0"}, "Buzzer", assign="bz", post=["bz.beep(on_ms=5, off_ms=2, times=1)"], mode="canon")
    bz_pre = ["bz = Buzzer(3)"]
    add("Buzzer.play_tone", Buzzer.play_tone, {"frequency": "523", "duration_ms": "9"}, "bz.play_tone", pre=bz_pre, post=["mon.write(bz.get_last_frequency())"], mode="canon")
    add("Buzzer.beep", Buzzer.beep, {"frequency": "700", "on_ms": "6", "off_ms": "3", "times": "2"}, "bz.beep", pre=bz_pre, mode="canon")
    add("Buzzer.sweep", Buzzer.sweep, {"start_hz": "300", "end_hz": "900", "duration_ms": "20", "steps": "4"}, "bz.sweep", pre=bz_pre, mode="canon")
    add("Buzzer.melody", Buzzer.melody, {"name": '"notify"', "tempo": "300"}, "bz.melody", pre=bz_pre, mode="canon")
    add("SerialMonitor()", SerialMonitor.__init__, {"baud_rate": "19200", "port": '"COM7"'}, "SerialMonitor", assign="mon2", post=['mon2.write("x")'],
        skip=["timeout", "newline"], mode="canon")
    add("SerialMonitor.write", SerialMonitor.write, {"value": "5"}, "mon.write")
    add("pin_mode", core.pin_mode, {"pin": "7", "mode": "OUTPUT"}, "pin_mode", mode="canon")
    add("digital_write", core.digital_write, {"pin": "7", "value": "HIGH"}, "digital_write", pre=["pin_mode(7, OUTPUT)"], mode="canon")
    add("analog_write", core.analog_write, {"pin": "6", "value": "77"}, "analog_write", pre=["pin_mode(6, OUTPUT)"], mode="canon")
    add("digital_read", core.digital_read, {"pin": "4"}, "digital_read", assign="v", post=["mon.write(v)"], mode="canon", world={"passes": 0, "din": {"4": [1], "7": [0]}})
    add("analog_read", core.analog_read, {"pin": "2"}, "analog_read", assign="v", post=["mon.write(v)"], mode="canon", world={"passes": 0, "ain": {"16": [333], "14": [1]}})
    add("sleep", utils.sleep, {"duration": "7"}, "sleep", skip=["sleep_func"])
    # LCD methods: the host buffer is compared with the board's cell matrix through serial dumps
    add("LCD.write", LCD.write, {"col": "2", "row": "1", "text": '"hey"', "clear_row": "False", "align": '"right"'}, "lcd.write", pre=lcd_pre + ['lcd.line(1, "0123456789abcdef")'], mode="lcd")
    add("LCD.line", LCD.line, {"row": "1", "text": '"mid"', "align": '"center"', "clear_row": "False"}, "lcd.line", pre=lcd_pre + ['lcd.line(1, "0123456789abcdef")'], mode="lcd")
    add("LCD.message", LCD.message, {"top": '"TOP"', "bottom": '"bot"', "top_align": '"right"', "bottom_align": '"center"', "clear_rows": "False"}, "lcd.message",
        pre=lcd_pre + ['lcd.line(0, "................")', 'lcd.line(1, "----------------")'], mode="lcd")
    add("LCD.progress", LCD.progress, {"row": "1", "value": "30", "max_value": "60", "width": "10", "style": '"hash"', "label": '"L"'}, "lcd.progress", pre=lcd_pre, mode="lcd")
    add("LCD.display", LCD.display, {"on": "False"}, "lcd.display", pre=lcd_pre, mode="canon")
    add("LCD.backlight", LCD.backlight, {"on": "False"}, "lcd.backlight", pre=lcd_pre, mode="canon")
    add("LCD.brightness", LCD.brightness, {"level": "99"}, "lcd.brightness", pre=lcd_pre, mode="canon")
    add("LCD.glyph", LCD.glyph, {"slot": "3", "bitmap": "[1, 2, 4, 8, 16, 8, 4, 2]"}, "lcd.glyph", pre=lcd_pre, mode="canon")
    add("LCD.animate", LCD.animate, {"animation": '"blink"', "row": "1", "text": '"anim"', "speed_ms": "0", "loop": "True"}, "lcd.animate", pre=lcd_pre,
        loop=["sleep(1)"], mode="canon", world={"passes": 3})
    return T


_TARGETS: Optional[List[dict]] = None
_SHAPES: Optional[List[Tuple[int, int]]] = None


def _table():
    global _TARGETS, _SHAPES
    if _TARGETS is None:
        from dst.gen.shapes import shapes_for

        _TARGETS = _targets()
        _SHAPES = []
        for ti, t in enumerate(_TARGETS):
            sig = inspect.signature(t["fn"])
            t["shapes"] = shapes_for(sig, t["values"], skip=t["skip"])
            for si in range(len(t["shapes"])):
                _SHAPES.append((ti, si))
    return _TARGETS, _SHAPES


def build_script(t: dict, shape) -> str:
    from dst.gen.shapes import render_call

    call = render_call(t["callee"], shape)
    if t["assign"]:
        call = f"{t['assign']} = {call}"
    lines = [HEAD + MON.rstrip("\n")] + t["pre"] + [call] + t["post"]
    if t["mode"] == "lcd":
        lines.append("mon.write(\"@sync\")")
    lines.append("while True:")
    lines += ["    " + l for l in (t["loop"] or ["sleep(1)"])]
    return "\n".join(lines) + "\n"


class E2Shapes(ScriptEngine):
    name = "e2-shapes"
    property_id = "C08"
    check_time = True
    rule = (
        "finite sweep: for every device constructor, device method and Core/Utils helper, every positional/keyword "
        "split, keyword permutation (capped at 7 per split) and subset of omitted defaults that inspect.signature of the "
        "host callable accepts, with distinct values per parameter; run i takes shape i mod total; a shape the "
        "transpiler rejects is fine, an accepted shape must behave on the board like the host class bound by Python "
        "(mode host/lcd) or like the first accepted canonical shape (mode canon: Buzzer, Ultrasonic, config-only calls); "
        "non-trivial = shape accepted; distinct = digest of the call text"
    )

    def generate(self, rng, tier: str, avoid) -> dict:
        targets, shapes = _table()
        idx = getattr(rng, "_dst_index", rng.getrandbits(20)) % len(shapes)
        ti, si = shapes[idx]
        t = targets[ti]
        world = dict(t["world"]) or {"passes": 1}
        world.setdefault("passes", 1)
        return {
            "target": t["key"],
            "shape_index": si,
            "script": build_script(t, t["shapes"][si]),
            "worlds": [world],
            "mode": t["mode"],
            "duty_pins": t["duty"],
            "total_shapes": len(shapes),
        }

    def duty_tol(self, case: dict):
        return {f"pin:{p}": 1 for p in case.get("duty_pins", [])}

    def execute(self, case: dict) -> Outcome:
        mode = case.get("mode", "host")
        if mode == "host":
            out = super().execute(case)
        elif mode == "lcd":
            from dst.engines.e6_lcd import compare_lcd_script

            out = compare_lcd_script(case["script"], case["worlds"][0])
        else:
            out = self._canon(case)
        if out.status == "ok":
            out.digest = sha(case["target"] + str(case["shape_index"]))[:16]
            out.nontrivial = True
            out.probes[f"target:{case['target']}"] = 1
        elif out.status == "rejected":
            out.probes[f"rejected:{case['target']}"] = 1
        return out

    def _board_log(self, script: str, world: dict):
        from dst.board import build

        cpp = transpile(script)
        binary = build.build_sketch(cpp)
        try:
            run = build.run_sketch(binary, world)
        finally:
            build.discard(binary)
        return [l for l in run.log.splitlines()], run

    def _canon(self, case: dict) -> Outcome:
        from dst.board import build

        targets, _ = _table()
        t = next(x for x in targets if x["key"] == case["target"])
        world = case["worlds"][0]
        try:
            log, run = self._board_log(case["script"], world)
        except (ValueError, SyntaxError) as exc:
            return Outcome("rejected", message=str(exc)[:160])
        except build.BuildError as exc:
            return Outcome("violation", cls="build", message="accepted call shape yields firmware that does not build: " + _first_error(exc.stderr))
        if run.exit_code != 0:
            return Outcome("violation", cls="status", message=f"board exit code {run.exit_code}")
        # reference: the first shape (all-keyword first, then the others) the transpiler accepts
        me = t["shapes"][case["shape_index"]]
        n_pos_me = len(me[0])
        sig_names = [p for p in inspect.signature(t["fn"]).parameters if p != "self"]
        passed_me = set(sig_names[:n_pos_me]) | {n for n, _v in me[1]}

        def passed(shape):
            return set(sig_names[: len(shape[0])]) | {n for n, _v in shape[1]}

        # same parameters passed, different calling convention; all-keyword in signature order first
        order = [i for i in range(len(t["shapes"])) if passed(t["shapes"][i]) == passed_me]
        order.sort(key=lambda i: (len(t["shapes"][i][0]), [sig_names.index(n) for n, _v in t["shapes"][i][1]]))
        for ri in order:
            ref_script = build_script(t, t["shapes"][ri])
            if ref_script == case["script"]:
                continue
            try:
                ref_log, _ = self._board_log(ref_script, world)
            except (ValueError, SyntaxError, build.BuildError):
                continue
            if ref_log != log:
                k = next((i for i, (a, b) in enumerate(zip(ref_log, log)) if a != b), min(len(ref_log), len(log)))
                return Outcome(
                    "violation",
                    cls="binding",
                    message=f"{case['script'].splitlines()[len((HEAD + MON).splitlines()) + len(t['pre'])]!r} behaves differently from "
                    f"{ref_script.splitlines()[len((HEAD + MON).splitlines()) + len(t['pre'])]!r}: event {k}: "
                    f"{log[k] if k < len(log) else '<end>'!r} vs {ref_log[k] if k < len(ref_log) else '<end>'!r}",
                )
            return self._canon_defaults(case, t, me, passed_me, log, world) or Outcome("ok", probes={"canon_compared": 1})
        return self._canon_defaults(case, t, me, passed_me, log, world) or Outcome("ok", probes={"canon_only_shape": 1})

    def _canon_defaults(self, case, t, me, passed_me, log, world) -> Optional[Outcome]:
        """Second reference: the same call with every omitted parameter written out with the default of the Python
        signature (Python binds an omitted parameter to exactly that value).  Same-subset references share any defect
        that depends on *which* parameters are passed."""

        from dst.board import build

        params = [p for p in inspect.signature(t["fn"]).parameters.values() if p.name != "self" and p.name not in t["skip"]]
        values = dict(zip([p.name for p in params], me[0]))
        values.update(dict(me[1]))
        filled = []
        for p in params:
            if p.name in values:
                filled.append((p.name, values[p.name]))
            elif isinstance(p.default, (bool, int, float, str)):
                filled.append((p.name, repr(p.default)))
            elif p.default is not None and p.default is not inspect._empty:
                return None
        if [n for n, _v in filled] == [n for n in (p.name for p in params) if n in passed_me]:
            return None  # nothing was omitted (or only None defaults, which cannot be written out)
        ref_script = build_script(t, ([], filled))
        try:
            ref_log, _ = self._board_log(ref_script, world)
        except (ValueError, SyntaxError, build.BuildError):
            return None
        if ref_log != log:
            k = next((i for i, (a, b) in enumerate(zip(ref_log, log)) if a != b), min(len(ref_log), len(log)))
            line = len((HEAD + MON).splitlines()) + len(t["pre"])
            return Outcome(
                "violation",
                cls="binding-defaults",
                message=f"{case['script'].splitlines()[line]!r} behaves differently from the same call with the omitted defaults written out "
                f"{ref_script.splitlines()[line]!r}: event {k}: {log[k] if k < len(log) else '<end>'!r} vs {ref_log[k] if k < len(ref_log) else '<end>'!r}",
            )
        return None

    def shrink_candidates(self, case: dict):
        return []

    def sample_view(self, case: dict):
        return {"target": case["target"], "call": [l for l in case["script"].splitlines() if case["target"].split(".")[-1].split("(")[0].lower() in l.lower()][-1:], "mode": case["mode"]}
