"""E1 - differential refinement: firmware on the simulated board vs CPython on the host models.

A case is {script, worlds:[world...], variant}.  For every world the script is run by
CPython against the instrumented Reduino host modules (reference model) and, transpiled and
compiled, on the mock board; the two timed per-channel traces must be equivalent.
"""

from __future__ import annotations

import ast
import copy
import re
from typing import Dict, Iterable, List, Optional

from dst.core.common import setup_repo_import, sha
from dst.core.runner import Engine, Outcome
from dst.core.trace import compare, nontrivial, parse_board_log, shape_digest

setup_repo_import()

_NUM = re.compile(r"-?\d+(?:\.\d+)?(?:[eE][-+]?\d+)?")
INT_LIMIT = 30000


def transpile(script: str) -> str:
    from Reduino.transpile.emitter import emit
    from Reduino.transpile.parser import parse

    return emit(parse(script))


def host_namespace_in_range(namespace) -> bool:
    """No int of the script left the range a 32-bit (let alone AVR) int can hold; floats stay finite."""

    for key, value in (namespace or {}).items():
        if key.startswith("__"):
            continue
        values = value if isinstance(value, list) else [value]
        for v in values:
            if isinstance(v, bool):
                continue
            if isinstance(v, int) and abs(v) > 1000000:
                return False
            if isinstance(v, float) and (v != v or abs(v) > 1e9):
                return False
    return True


def host_values_in_range(trace) -> bool:
    for obs in trace.channels.get("ser", []):
        if "None" in str(obs.value):
            # a helper that falls off its end (a shrinking artefact): None is not a value of the subset
            return False
        for tok in _NUM.findall(str(obs.value)):
            try:
                if abs(float(tok)) > INT_LIMIT:
                    return False
            except ValueError:
                return False
    return True


class ScriptEngine(Engine):
    """Common machinery of all engines whose case is a script plus worlds."""

    compare_channels: Optional[List[str]] = None
    check_time = True
    duty_tol_pins: Dict[str, int] = {}
    variant_default = "plain"
    components_real = [
        "Reduino.transpile.parser.parse",
        "Reduino.transpile.emitter.emit (all C++ templates, compiled natively)",
        "Reduino host classes (Actuators, Sensors, Utils, Core, Communication) under CPython",
    ]
    components_stub = [
        "Arduino core + Servo/LiquidCrystal libraries (mock: virtual us clock, scripted pins, event log)",
        "pyserial (fake port object behind Reduino.Communication.serial)",
        "time.sleep (virtual clock behind Reduino.Utils.time)",
    ]
    assumptions = [
        "mock board is permissive (gnu++17, exceptions on, 32-bit int, 64-bit unsigned long): AVR-only failures are not flagged",
        "values kept inside |int| < 30000 and float32-exact literals; serial numbers compared with 0.005 abs + 1e-5 rel tolerance",
        "millis() wrap-around, allocation failure and interrupts are not modelled",
    ]

    def setup(self) -> None:
        from dst.board import build
        from dst.host import executor

        build.ensure_runtime("plain")
        executor.install()

    # -- hooks for subclasses
    def duty_tol(self, case: dict) -> Dict[str, int]:
        return dict(case.get("duty_tol") or {})

    def extra_board_checks(self, case: dict, world: dict, board_trace, host_trace) -> Optional[Outcome]:
        return None

    def execute(self, case: dict) -> Outcome:
        from dst.board import build
        from dst.host.executor import run_host

        script = case["script"]
        worlds = case["worlds"]
        variant = case.get("variant", self.variant_default)
        probes: Dict[str, int] = {}
        try:
            cpp = transpile(script)
        except (ValueError, SyntaxError) as exc:
            return Outcome("rejected", message=f"{type(exc).__name__}: {exc}"[:200], probes={"rejected": 1})
        except RecursionError as exc:
            return Outcome("rejected", message="RecursionError", probes={"rejected_internal": 1})
        except Exception as exc:  # an internal error is still "fails with an error" for C01; C11 judges the type
            return Outcome("rejected", message=f"{type(exc).__name__}: {exc}"[:200], probes={"rejected_internal": 1})

        host_script = case.get("host_script", script)
        host_runs = []
        for world in worlds:
            h = run_host(host_script, world, int(world.get("passes", 1)))
            if h.error is not None:
                probes["host_error"] = probes.get("host_error", 0) + 1
                continue
            if not host_values_in_range(h.trace) or not host_namespace_in_range(h.recorder.namespace):
                probes["out_of_range"] = probes.get("out_of_range", 0) + 1
                continue
            h.trace.live_samples = list(h.recorder.live_samples)
            host_runs.append((world, h))
        if not host_runs:
            return Outcome("discard", message="script not well defined in any world", probes=probes)

        binary = None
        try:
            try:
                binary = build.build_sketch(cpp, variant)
            except build.BuildError as exc:
                # "well defined" has to hold for N >= 1 passes too, otherwise a name that is only
                # undefined inside the never-executed main loop would count as an accepted script
                probe_world = dict(host_runs[0][0], passes=max(2, int(host_runs[0][0].get("passes", 0))))
                if run_host(host_script, probe_world, probe_world["passes"]).error is not None:
                    return Outcome("discard", message="script not well defined for N>=1", probes=probes)
                return Outcome(
                    "violation",
                    cls="build",
                    message="accepted script yields firmware that does not build: " + _first_error(exc.stderr),
                    probes=probes,
                    detail={"stderr": exc.stderr[-1500:]},
                )
            digests = []
            sim_ms = 0.0
            any_nontrivial = False
            faults: Dict[str, int] = {}
            for world, h in host_runs:
                run = build.run_sketch(binary, world)
                bt = parse_board_log(run.log, run.exit_code, run.stderr)
                sim_ms += bt.end_ms + h.trace.end_ms
                _count_faults(world, faults)
                div = compare(
                    bt,
                    h.trace,
                    check_time=self.check_time,
                    channels=self.compare_channels,
                    duty_tol=self.duty_tol(case),
                )
                if div is not None:
                    cls = "/".join(div.key())
                    return Outcome(
                        "violation",
                        cls=cls,
                        message=div.describe(),
                        probes=probes,
                        faults=faults,
                        detail={"world": world},
                    )
                extra = self.extra_board_checks(case, world, bt, h.trace)
                if extra is not None:
                    return extra
                digests.append(shape_digest(bt))
                any_nontrivial = any_nontrivial or nontrivial(bt)
            probes["worlds_compared"] = len(host_runs)
            return Outcome(
                "ok",
                digest=sha("".join(digests))[:16],
                nontrivial=any_nontrivial,
                sim_ms=sim_ms,
                probes=probes,
                faults=faults,
            )
        finally:
            build.discard(binary)

    # ------------------------------------------------------------ minimisation (text level)
    def shrink_candidates(self, case: dict) -> Iterable[dict]:
        worlds = case["worlds"]
        if len(worlds) > 1:
            for w in worlds:
                c = copy.deepcopy(case)
                c["worlds"] = [w]
                yield c
        w0 = worlds[0]
        if int(w0.get("passes", 1)) > 0:
            for p in sorted({0, 1, int(w0["passes"]) - 1} - {int(w0["passes"])}):
                if p < 0:
                    continue
                c = copy.deepcopy(case)
                c["worlds"] = [dict(w0, passes=p)]
                yield c
        for flat in _flatten_world(w0):
            c = copy.deepcopy(case)
            c["worlds"] = [flat]
            yield c
        lines = case["script"].splitlines()
        for cand in _line_deletions(lines):
            text = "\n".join(cand) + "\n"
            try:
                ast.parse(text)
            except SyntaxError:
                continue
            c = copy.deepcopy(case)
            c["script"] = text
            yield c

    def sample_view(self, case: dict) -> object:
        return {"script": case["script"], "worlds": case["worlds"][:1]}


def _first_error(stderr: str) -> str:
    for line in stderr.splitlines():
        if "error" in line:
            return re.sub(r"/\S+?\.cpp:", "sketch.cpp:", line.strip())[:240]
    return re.sub(r"/\S+?\.cpp:", "sketch.cpp:", stderr.strip())[:240]


def _count_faults(world: dict, faults: Dict[str, int]) -> None:
    gaps = world.get("gaps") or []
    if world.get("boot_us"):
        faults["boot_offset"] = faults.get("boot_offset", 0) + 1
    else:
        faults["boot_at_zero"] = faults.get("boot_at_zero", 0) + 1
    n = int(world.get("passes", 0))
    for k in range(n):
        g = gaps[min(k, len(gaps) - 1)] if gaps else 0
        if g == 0:
            faults["zero_gap_pass"] = faults.get("zero_gap_pass", 0) + 1
        elif g >= 1000000:
            faults["clock_jump"] = faults.get("clock_jump", 0) + 1
        elif g >= 100000:
            faults["late_pass"] = faults.get("late_pass", 0) + 1
    for seq in (world.get("ain") or {}).values():
        if any(v in (0, 1023) for v in seq):
            faults["adc_extreme"] = faults.get("adc_extreme", 0) + 1
            break
    for seq in (world.get("din") or {}).values():
        if seq and seq[0]:
            faults["button_held_at_boot"] = faults.get("button_held_at_boot", 0) + 1
            break


def _flatten_world(world: dict) -> List[dict]:
    out = []
    if world.get("gaps") and any(world["gaps"]):
        out.append(dict(world, gaps=[0]))
    if world.get("boot_us"):
        w = dict(world)
        w.pop("boot_us")
        out.append(w)
    ain = world.get("ain") or {}
    if any(len(v) > 1 for v in ain.values()):
        out.append(dict(world, ain={k: v[:1] for k, v in ain.items()}))
    din = world.get("din") or {}
    if any(any(v) for v in din.values()):
        out.append(dict(world, din={k: [0] for k in din}))
    return out


def _indent(line: str) -> int:
    return len(line) - len(line.lstrip(" "))


def _line_deletions(lines: List[str]):
    """Candidates: drop one statement (with its block), or unwrap one block header."""

    n = len(lines)
    # larger chunks first: whole blocks from the bottom up
    for i in range(n - 1, -1, -1):
        if not lines[i].strip():
            continue
        base = _indent(lines[i])
        j = i + 1
        while j < n and (not lines[j].strip() or _indent(lines[j]) > base):
            j += 1
        yield lines[:i] + lines[j:]
        if j > i + 1 and lines[i].rstrip().endswith(":"):
            head = lines[i].strip()
            if head.startswith(("if ", "for ", "while ", "try", "elif ", "else")) and not head.startswith("while True"):
                body = [l[4:] if l.startswith(" " * (base + 4)) else l for l in lines[i + 1 : j]]
                yield lines[:i] + body + lines[j:]


class E1Core(ScriptEngine):
    """C01: core language programs."""

    name = "e1-core"
    property_id = "C01"
    rule = (
        "seeded typed program generator (swarm feature mask, 3-40 statements, nesting <= 3, helpers, lists, "
        "strings) x 2-3 seeded worlds (ADC waveforms, button levels, inter-pass gaps, boot offset) x N passes; "
        "a run is non-trivial when the board produced at least one user observable; distinct = distinct "
        "digest of the per-channel observable trace over all worlds of the case"
    )

    def generate(self, rng, tier: str, avoid) -> dict:
        from dst.gen.programs import GenOptions, ProgGen, random_world

        opts = GenOptions(
            max_stmts=rng.choice([6, 10, 16, 24] if tier == "quick" else [8, 16, 28, 40]),
            max_depth=rng.choice([1, 2, 3]),
            use_led=rng.random() < 0.6,
            use_pot=rng.random() < 0.8,
            use_button=rng.random() < 0.6,
            use_lists=rng.random() < 0.6,
            use_strings=rng.random() < 0.7,
            use_floats=rng.random() < 0.7,
            use_helpers=rng.random() < 0.6,
            use_sleep=rng.random() < 0.7,
            main_loop=rng.random() < 0.9,
        )
        gen = ProgGen(rng, avoid, opts)
        script = gen.generate()
        max_pass = 4 if tier == "quick" else 12
        worlds = []
        for _ in range(rng.choice([2, 3])):
            passes = rng.choice([0, 1, 2, 3, max_pass])
            worlds.append(random_world(rng, script, passes))
        return {"script": script, "worlds": worlds, "features": sorted(gen.features_used)}


class E2Actuators(ScriptEngine):
    """C04: actuator operation histories, literal and run-time arguments, getter probes."""

    name = "e2-actuators"
    property_id = "C04"
    rule = (
        "seeded operation histories (1-14 ops) over 1-5 declared Led/RGBLed/Servo/DCMotor devices, arguments as "
        "literals, variables or potentiometer-derived run-time values, boundary-biased, a getter probe after "
        "every op, 2-3 seeded worlds x 0-6 passes; non-trivial = board drove at least one pin/servo; distinct = "
        "digest of the per-channel observable trace"
    )

    def duty_tol(self, case: dict):
        return {f"pin:{p}": 1 for p in case.get("duty_pins", [])}

    def generate(self, rng, tier: str, avoid) -> dict:
        from dst.gen.actuators import ActGen
        from dst.gen.programs import random_world

        gen = ActGen(rng, avoid, tier)
        script = gen.generate()
        worlds = []
        for _ in range(rng.choice([2, 3])):
            passes = rng.choice([0, 1, 2, 3, 4 if tier == "quick" else 6])
            worlds.append(random_world(rng, script, passes))
        return {"script": script, "worlds": worlds, "duty_pins": gen.duty_pins, "features": sorted(gen.features_used)}

    def extra_board_checks(self, case, world, bt, ht):
        # clamp monitor: nothing outside the documented limits ever reaches a pin
        for _t, _phase, kind, rest in bt.raw:
            if kind == "AW":
                pin, value = rest.split()
                if not 0 <= int(value) <= 255:
                    return Outcome("violation", cls="clamp/aw", message=f"analogWrite({pin}, {value}) outside 0-255")
        return None


class E2Clamp(E2Actuators):
    """C04 (clamping): out-of-range commands on the board vs the documented limit on the host."""

    name = "e2-clamp"
    rule = (
        "as e2-actuators, but ~45% of the numeric arguments are out of range (literal or through a variable); "
        "the board runs the raw script, the host reference the same script with each such value replaced by "
        "the documented limit; plus a monitor that no analogWrite/servo command leaves the limits"
    )

    def generate(self, rng, tier: str, avoid) -> dict:
        from dst.gen.actuators import ActGen
        from dst.gen.programs import random_world

        gen = ActGen(rng, avoid, tier, clamp=True)
        text = gen.generate()
        worlds = []
        for _ in range(2):
            worlds.append(random_world(rng, text, rng.choice([0, 1, 2, 3])))
        servo_bounds = {
            str(d["pin"]): [d["amin"], d["amax"], d["pmin"], d["pmax"]] for d in gen.devices.values() if d["kind"] == "servo"
        }
        return {
            "script": ActGen.render(text, "board"),
            "host_script": ActGen.render(text, "host"),
            "worlds": worlds,
            "duty_pins": gen.duty_pins,
            "servo_bounds": servo_bounds,
        }

    def extra_board_checks(self, case, world, bt, ht):
        out = super().extra_board_checks(case, world, bt, ht)
        if out is not None:
            return out
        bounds = case.get("servo_bounds") or {}
        for name, obs in bt.channels.items():
            if not name.startswith("servo:"):
                continue
            b = bounds.get(name.split(":")[1])
            if not b:
                continue
            for o in obs:
                op, value = o.value
                lo, hi = (b[0], b[1]) if op == "WRITE" else (b[2], b[3])
                if not lo <= value <= hi:
                    return Outcome("violation", cls="clamp/servo", message=f"servo {name} {op} {value} outside [{lo}, {hi}]")
        return None

    def shrink_candidates(self, case):
        # both scripts must shrink in lockstep: delete the same line index in both
        board_lines = case["script"].splitlines()
        host_lines = case["host_script"].splitlines()
        if len(board_lines) != len(host_lines):
            return
        for cand in super().shrink_candidates({**case, "script": case["script"]}):
            if cand["script"] == case["script"]:
                cand["host_script"] = case["host_script"]
                yield cand
                continue
            kept = cand["script"].splitlines()
            # recover which lines were dropped by aligning on the board text
            idx, host_kept, ok = 0, [], True
            for line in kept:
                while idx < len(board_lines) and board_lines[idx].strip() != line.strip():
                    idx += 1
                if idx >= len(board_lines):
                    ok = False
                    break
                indent = len(line) - len(line.lstrip(" "))
                host_kept.append(" " * indent + host_lines[idx].strip())
                idx += 1
            if ok:
                cand["host_script"] = "\n".join(host_kept) + "\n"
                yield cand


class E1Persist(E1Core):
    """C05 (persistence): globals updated in the loop body keep their values across N = 0..3 passes."""

    name = "e1-persist"
    property_id = "C05"
    rule = (
        "core-language programs that always have a `while True:` body updating names assigned before it, each run "
        "for N = 0, 1, 2 and 3 passes in its own seeded world; board trace must refine the CPython trace pass by pass"
    )

    def generate(self, rng, tier: str, avoid) -> dict:
        from dst.gen.programs import GenOptions, ProgGen, random_world

        opts = GenOptions(
            max_stmts=rng.choice([8, 14, 20]),
            max_depth=rng.choice([1, 2]),
            use_led=rng.random() < 0.5,
            use_lists=rng.random() < 0.4,
            use_helpers=rng.random() < 0.4,
            main_loop=True,
        )
        gen = ProgGen(rng, avoid, opts)
        script = gen.generate()
        worlds = [random_world(rng, script, n) for n in (0, 1, 2, 3)]
        return {"script": script, "worlds": worlds, "features": sorted(gen.features_used)}


class E7Heap(ScriptEngine):
    """C09: list/str programs under AddressSanitizer + UBSan, live heap sampled after every pass."""

    name = "e7-heap"
    property_id = "C09"
    variant_default = "asan"
    rule = (
        "list/str-heavy programs (literals, comprehensions, append/remove pairs, negative indices, re-assignment, "
        "lists shared between setup and the loop, string concatenation and f-strings), IndexError-free by "
        "construction with the CPython run as arbiter, compiled with clang -fsanitize=address,undefined and run "
        "for 6-12 passes; violation = any sanitizer report, a trace divergence, or board heap bytes that differ "
        "between passes k >= 2 while the host program's live list/str data is constant; distinct = trace digest"
    )
    assumptions = ScriptEngine.assumptions + [
        "heap bytes are read through __sanitizer_get_current_allocated_bytes after every pass; the mock String keeps an exact-fit buffer so live bytes are a function of live data",
    ]

    def setup(self) -> None:
        from dst.board import build
        from dst.host import executor

        build.ensure_runtime("asan")
        executor.install()

    def generate(self, rng, tier: str, avoid) -> dict:
        from dst.gen.programs import GenOptions, ProgGen, random_world

        opts = GenOptions(
            max_stmts=rng.choice([8, 14, 22]),
            max_depth=rng.choice([1, 2]),
            use_led=False,
            use_lists=True,
            use_strings=rng.random() < 0.8,
            use_floats=rng.random() < 0.5,
            use_helpers=rng.random() < 0.4,
            use_sleep=False,
            main_loop=True,
            steady_loop=rng.random() < 0.8,
            shrink_reassign=rng.random() < 0.04,
        )
        gen = ProgGen(rng, avoid, opts)
        gen.list_bias = True
        script = gen.generate()
        passes = rng.choice([6, 8, 12])
        return {"script": script, "worlds": [random_world(rng, script, passes)], "features": sorted(gen.features_used), "variant": "asan"}

    def extra_board_checks(self, case, world, bt, ht):
        heaps = []
        for _t, _p, kind, rest in bt.raw:
            if kind == "PASS_END":
                m = re.search(r"heap=(-?\d+)", rest)
                if m:
                    heaps.append(int(m.group(1)))
        live = getattr(ht, "live_samples", None)
        if live is None or len(heaps) < 4:
            return None
        # live[0] = end of setup, live[k+1] = end of pass k (the sample for the last pass is taken at the end)
        per_pass = live[1:]
        if len(per_pass) >= len(heaps) and len(set(per_pass[1 : len(heaps)])) == 1:
            steady = heaps[2:]
            if len(set(steady)) > 1:
                return Outcome(
                    "violation",
                    cls="heap-growth",
                    message=f"live list/str data is constant ({per_pass[1]} items) but the firmware's heap is not: bytes after each pass {heaps}",
                )
        return None


_MEANINGLESS = re.compile(
    r"""^(?:
        (?:from\s+[\w.\s]+?\s+)?import\s+.+   # imports
      | target\s*\(.*\)                        # the target() call
      | [A-Za-z_]\w*\s*=\s*target\s*\(.*\)    # cpp = target(...)
      | pass
      | global\s+.+
      | \#.*                                   # comment
      | print\s*\(.*\)                         # host-only print
    )$""",
    re.X,
)


def _is_docstring(text: str) -> bool:
    try:
        node = ast.parse(text, mode="eval").body
    except SyntaxError:
        return False
    return isinstance(node, ast.Constant) and isinstance(node.value, str)


def ignored_lines_of(script: str):
    """Transpile with the REDUINO_VERIF hook on; returns (cpp or exception, ignored entries)."""

    import os

    import Reduino.transpile.parser as parser_mod

    log = getattr(parser_mod, "_VERIF_IGNORED_LINES", None)
    if log is None:
        raise RuntimeError("the REDUINO_VERIF hook is missing from Reduino.transpile.parser")
    old = os.environ.get("REDUINO_VERIF")
    os.environ["REDUINO_VERIF"] = "1"
    del log[:]
    try:
        try:
            result = transpile(script)
        except Exception as exc:  # noqa: BLE001
            result = exc
        entries = list(log)
    finally:
        del log[:]
        if old is None:
            os.environ.pop("REDUINO_VERIF", None)
        else:
            os.environ["REDUINO_VERIF"] = old
    return result, entries


def judge_ignored(entries) -> Optional[str]:
    for scope, depth, text, reason in entries:
        stripped = text.strip()
        if _MEANINGLESS.match(stripped) or _is_docstring(stripped):
            continue
        return f"line {stripped!r} ({scope}, depth {depth}) was skipped without a diagnostic (reason: {reason})"
    return None


class E1Layout(ScriptEngine):
    """C07: meaning-preserving re-layouts and the ignored-line log."""

    name = "e1-layout"
    property_id = "C07"
    rule = (
        "core-language and actuator programs rendered through a seeded layout (comment lines at any column, "
        "trailing comments incl. on block headers, blank lines, per-block indent unit 1-8 or tabs, trailing "
        "whitespace, optional spaces around tokens); each variant is first validated against CPython's own ast; one case "
        "in eight contains (multi-handler) try/except and is judged on the firmware text and the ignored-line log only; "
        "checks: firmware text byte-identical to the original's, board(variant) refines host(original), and every "
        "entry of the REDUINO_VERIF ignored-line log belongs to the fixed set of meaningless lines; non-trivial = "
        "variant differs from the original text; distinct = digest of the variant"
    )
    components_real = ScriptEngine.components_real + ["REDUINO_VERIF hook: Reduino.transpile.parser._VERIF_IGNORED_LINES"]

    def generate(self, rng, tier: str, avoid) -> dict:
        from dst.gen.actuators import ActGen
        from dst.gen.layout import relayout, same_python
        from dst.gen.programs import GenOptions, ProgGen, random_world

        text_only = False
        if rng.random() < 0.12:
            # try/except does not compile (open finding), but its block structure is still translated: such scripts
            # are judged on the firmware text and the ignored-line log only
            opts = GenOptions(max_stmts=rng.choice([12, 20]), max_depth=rng.choice([2, 3]))
            original = ProgGen(rng, [a for a in avoid if a != "try_except"], opts).generate()
            text_only = "try:" in original
            duty = []
        elif rng.random() < 0.8:
            opts = GenOptions(max_stmts=rng.choice([6, 12, 20]), max_depth=rng.choice([1, 2, 3]))
            original = ProgGen(rng, avoid, opts).generate()
            duty = []
        else:
            g = ActGen(rng, avoid, tier)
            original = g.generate()
            duty = g.duty_pins
        if rng.random() < 0.3:
            original = original.replace('mon = SerialMonitor(9600, "COM3")\n', 'mon = SerialMonitor(9600, "COM3")\n"""docstring-like note"""\nprint("host only")\n', 1)
        variant, used = original, []
        for _ in range(6):
            cand, feats = relayout(rng, original, avoid)
            if same_python(original, cand):
                variant, used = cand, feats
                break
        worlds = [random_world(rng, original, rng.choice([0, 1, 2, 3])) for _ in range(2)]
        return {"script": variant, "host_script": original, "worlds": worlds, "layout_features": used, "duty_pins": duty, "text_only": text_only}

    def duty_tol(self, case: dict):
        return {f"pin:{p}": 1 for p in case.get("duty_pins", [])}

    def execute(self, case: dict) -> Outcome:
        original, variant = case["host_script"], case["script"]
        res_o, ign_o = ignored_lines_of(original)
        res_v, ign_v = ignored_lines_of(variant)
        for entries in (ign_o, ign_v):
            msg = judge_ignored(entries)
            if msg:
                return Outcome("violation", cls="line-dropped", message=msg)
        if isinstance(res_o, Exception) != isinstance(res_v, Exception):
            bad = res_v if isinstance(res_v, Exception) else res_o
            which = "re-laid-out variant" if isinstance(res_v, Exception) else "original"
            return Outcome("violation", cls="layout-changes-acceptance", message=f"only the {which} is rejected: {type(bad).__name__}: {bad}"[:300])
        if not isinstance(res_o, Exception) and res_o != res_v:
            a, b = res_o.splitlines(), res_v.splitlines()
            k = next((i for i, (x, y) in enumerate(zip(a, b)) if x != y), min(len(a), len(b)))
            return Outcome(
                "violation",
                cls="layout-changes-output",
                message=f"firmware differs at line {k}: original {a[k] if k < len(a) else '<end>'!r} / variant {b[k] if k < len(b) else '<end>'!r}",
            )
        if case.get("text_only"):
            if isinstance(res_o, Exception):
                return Outcome("rejected", message=str(res_o)[:200], probes={"rejected": 1})
            return Outcome("ok", digest=sha(variant)[:16], nontrivial=variant != original, probes={"text_only": 1})
        out = super().execute(case)
        if out.status == "ok":
            out.nontrivial = out.nontrivial and variant != original
            out.probes.update({f"layout:{f}": 1 for f in case.get("layout_features", [])})
        return out

    def shrink_candidates(self, case: dict):
        # shrink the original, re-apply nothing: the variant is reduced line by line in lockstep where possible
        vlines = case["script"].splitlines()
        for i in range(len(vlines) - 1, -1, -1):
            stripped = vlines[i].strip()
            if not stripped or stripped.startswith("#"):
                c = copy.deepcopy(case)
                c["script"] = "\n".join(vlines[:i] + vlines[i + 1 :]) + "\n"
                from dst.gen.layout import same_python

                if same_python(case["host_script"], c["script"]):
                    yield c
        olines = case["host_script"].splitlines()
        for i in range(len(olines) - 1, -1, -1):
            if not olines[i].strip():
                continue
            target_line = olines[i].strip()
            # drop the same statement (and its block) from both texts
            def drop(lines, pred):
                for j, l in enumerate(lines):
                    if pred(l):
                        base = len(l) - len(l.lstrip())
                        k = j + 1
                        while k < len(lines) and (not lines[k].strip() or lines[k].lstrip().startswith("#") or len(lines[k]) - len(lines[k].lstrip()) > base):
                            k += 1
                        return lines[:j] + lines[k:]
                return None

            import tokenize as _tk

            def norm(text):
                return re.sub(r"\s+", "", text.split("  #")[0])

            o2 = drop(olines, lambda l: l.strip() == target_line)
            v2 = drop(vlines, lambda l: norm(l.strip()).startswith(norm(target_line)))
            if o2 is None or v2 is None:
                continue
            c = copy.deepcopy(case)
            c["host_script"] = "\n".join(o2) + "\n"
            c["script"] = "\n".join(v2) + "\n"
            from dst.gen.layout import same_python

            if same_python(c["host_script"], c["script"]):
                yield c


class E1Types(E1Core):
    """C02: typing swarm - mixed int/float/bool/str flows through branches, loops, helpers."""

    name = "e1-types"
    property_id = "C02"
    rule = (
        "core-language generator with a typing bias: names first assigned inside if/elif/else or a for body and used "
        "afterwards (hoisting), conditional expressions and arithmetic mixing int and float, casts, comparisons across "
        "types, lists with mixed numeric elements, helpers whose return paths mix int and float, float/str/bool "
        "parameters; every name is printed after every assignment; x 2-3 worlds x 0-4 passes; distinct = trace digest"
    )

    def generate(self, rng, tier: str, avoid) -> dict:
        from dst.gen.programs import GenOptions, ProgGen, random_world

        opts = GenOptions(
            max_stmts=rng.choice([8, 14, 22] if tier == "quick" else [10, 20, 36]),
            max_depth=rng.choice([1, 2, 3]),
            use_led=False,
            use_lists=rng.random() < 0.5,
            use_strings=rng.random() < 0.8,
            use_floats=True,
            use_helpers=rng.random() < 0.8,
            use_sleep=False,
            main_loop=rng.random() < 0.85,
            typing_bias=True,
        )
        gen = ProgGen(rng, avoid, opts)
        script = gen.generate()
        worlds = [random_world(rng, script, rng.choice([0, 1, 2, 4])) for _ in range(rng.choice([2, 3]))]
        return {"script": script, "worlds": worlds, "features": sorted(gen.features_used)}


class E2Meta(ScriptEngine):
    """C03: metamorphic pairs - literals (transpile-time folding) vs the same values through names,
    with dead or zero-trip mutations of those names elsewhere in the script."""

    name = "e2-meta"
    property_id = "C03"
    rule = (
        "for every fold site (pins, delays, blink/fade/ramp arguments, len() of a literal-bound name, flash_pattern(name), "
        "glyph(slot, name), ultrasonic model name, global initialisers) a script P with literals and a script P' with the "
        "same values bound to names first, plus assignments/append/remove to those names inside branches the world never "
        "takes and loops that run zero times; board(P') must refine host(P') and board(P) and board(P') must show the same "
        "observable trace and LCD matrices; distinct = digest of P'"
    )

    def generate(self, rng, tier: str, avoid) -> dict:
        from dst.gen.programs import random_world

        r = rng
        n = [0]

        def name(prefix="k"):
            n[0] += 1
            return f"{prefix}{n[0]}"

        binds: List[str] = []  # name bindings for P'
        int_names: List[Tuple[str, int]] = []  # int-valued names of P' and the value they are bound to
        dead: List[str] = []   # dead mutations for P'

        def lit(value, kind="int", force=False):
            """Returns (text in P, text in P'); ``force``: always through a name that is re-assigned elsewhere."""

            text = repr(value)
            if force:
                nm = name()
                binds.append(f"{nm} = {text}")
                int_names.append((nm, value))
                dead.append(r.choice([f"{nm} = {nm} + 1", f"{nm} += 3"]))
                return text, nm
            if kind in ("int", "pin") and isinstance(value, int) and r.random() < 0.4:
                from dst.gen.constexpr import const_int_expr

                # the literal form P folds a name-free expression; the named form P' carries the plain value
                folded = const_int_expr(r, value)
                nm = name()
                binds.append(f"{nm} = {text}")
                return folded, nm
            if r.random() < 0.25:
                return text, text
            nm = name()
            binds.append(f"{nm} = {text}")
            if kind == "int" and isinstance(value, int):
                int_names.append((nm, value))
            how = r.random()
            if kind == "pin" and live and "pin_name_mutation" in avoid:
                pass  # a device keeps using the *name* of its pin: re-assigning it later moves the device (known finding)
            elif kind in ("int", "pin") and how < 0.5:
                dead.append(r.choice([f"{nm} = {nm} + 1", f"{nm} += 3", f"{nm} = 0"]))
            elif kind == "list" and how < 0.6 and "dead_list_mutation" not in avoid:
                dead.append(r.choice([f"{nm}.append(1)", f"{nm}.remove({value[0]})" if value else f"{nm}.append(0)"]))
            elif kind == "str" and how < 0.5:
                dead.append(f'{nm} = {nm} + "x"')
            return text, nm

        head = [
            "from Reduino import target", 'target("COM3")', "from Reduino.Communication import SerialMonitor", "from Reduino.Utils import sleep",
            "from Reduino.Actuators import Led, RGBLed, Servo, DCMotor, Buzzer", "from Reduino.Sensors import Potentiometer, Ultrasonic",
            "from Reduino.Displays import LCD", 'mon = SerialMonitor(9600, "COM3")', 'pot = Potentiometer("A0")',
        ]
        p_lines: List[Tuple[str, str]] = []  # (P, P')

        def both(fmt: str, *pairs):
            p_lines.append((fmt.format(*[a for a, _b in pairs]), fmt.format(*[b for _a, b in pairs])))

        # "live" mode: the names are really re-assigned on paths the world takes (taken branch, loop with trips);
        # then only board(P') vs host(P') is meaningful
        live = r.random() < 0.35
        use_lcd = (not live) and r.random() < 0.5
        use_bz = (not live) and r.random() < 0.4
        use_us = (not live) and r.random() < 0.4
        both("led = Led({})", lit(r.choice([3, 5, 6, 9]), "pin"))
        if r.random() < 0.5:
            both("sv = Servo({})", lit(10, "pin"))
        else:
            p_lines.append(("sv = Servo(10, min_angle=0, max_angle=170)", "sv = Servo(10, min_angle=0, max_angle=170)"))
        if use_lcd:
            p_lines.append(("lcd = LCD(rs=12, en=11, d4=7, d5=4, d6=8, d7=2, cols=16, rows=2)",) * 2)
        if use_bz:
            both("bz = Buzzer({})", lit(13, "pin"))
        if use_us:
            both("us = Ultrasonic(22, 23, sensor={})", lit(r.choice(["HC-SR04", "hc-sr04", "hc_sr04"]), "str"))
        p_lines.append(("tag = 'ab'",) * 2)
        both("g = {}", lit(r.randint(0, 50)))
        both("h = {} * 2 + 1", lit(r.randint(0, 9)))
        ops = r.randint(3, 9)
        body_setup: List[Tuple[str, str]] = []
        body_loop: List[Tuple[str, str]] = []

        def emit_op(target_list):
            k = r.choice(["sleep", "blink", "bright", "fade", "flash", "servo", "len_s", "len_l", "glyph", "lcdw", "beep", "range", "measure", "globalexpr", "wrapped", "wrapped", "augstr"])
            fmt, pairs = None, ()
            if k == "sleep":
                fmt, pairs = "sleep({})", (lit(r.choice([0, 1, 7, 25])),)
            elif k == "blink":
                fmt, pairs = "led.blink({}, {})", (lit(r.choice([1, 5, 12])), lit(r.choice([1, 2, 3])))
            elif k == "bright":
                fmt, pairs = "led.set_brightness({})", (lit(r.choice([0, 1, 128, 255])),)
            elif k == "fade":
                fmt, pairs = "led.fade_in({}, {})", (lit(r.choice([51, 85, 128])), lit(r.choice([0, 2, 5])))
            elif k == "flash":
                pattern = [r.choice([0, 1, 1, 200]) for _ in range(r.randint(1, 4))]
                if r.random() < 0.4:
                    # a second list bound to the same literal text and really mutated: the two names are different lists
                    twin = name("tw")
                    target_list.append((f"{twin} = {pattern!r}",) * 2)
                    target_list.append((r.choice([f"{twin}.append(1)", f"{twin}.remove({pattern[0]})", f"{twin}.append(0)"]),) * 2)
                fmt, pairs = "led.flash_pattern({}, {})", (lit(pattern, "list"), lit(r.choice([0, 3, 9])))
            elif k == "servo":
                fmt, pairs = "sv.write({})", (lit(r.choice([0, 45, 90, 170])),)
            elif k == "len_s":
                fmt, pairs = "mon.write(len({}))", (lit(r.choice(["", "abc", "hello world"]), "str"),)
            elif k == "len_l":
                items = [r.randint(0, 9) for _ in range(r.randint(1, 5))]
                if r.random() < 0.4:
                    twin = name("tw")
                    target_list.append((f"{twin} = {items!r}",) * 2)
                    target_list.append((f"{twin}.append({r.randint(0, 9)})",) * 2)
                fmt, pairs = "mon.write(len({}))", (lit(items, "list"),)
            elif k == "glyph" and use_lcd:
                fmt, pairs = "lcd.glyph({}, {})", ((str(r.randint(0, 7)),) * 2, lit([r.randint(0, 31) for _ in range(8)], "list"))
            elif k == "lcdw" and use_lcd:
                fmt, pairs = "lcd.line({}, {})", (lit(r.randint(0, 1)), lit(r.choice(["hi", "ready", "0123456789abcdefXYZ"]), "str"))
            elif k == "beep" and use_bz:
                fmt, pairs = "bz.beep({}, on_ms={}, off_ms={}, times={})", (lit(r.choice([440, 880])), lit(r.choice([2, 9])), lit(r.choice([0, 4])), lit(r.choice([1, 2])))
            elif k == "range":
                cnt = lit(r.choice([0, 1, 3]))
                target_list.append((f"for i{n[0]} in range({cnt[0]}):", f"for i{n[0]} in range({cnt[1]}):"))
                target_list.append(("    led.toggle()",) * 2)
                return
            elif k == "measure" and use_us:
                target_list.append(("mon.write(us.measure_distance())",) * 2)
                return
            elif k == "wrapped":
                # the value sits in a later argument / inside a builtin or a conditional expression: "name-free" must
                # be decided over the whole expression
                v = lit(r.choice([2, 7, 25, 60]), force=r.random() < 0.7)
                c = r.choice([1, 3, 40, 100])
                form = r.choice(["max({c}, {v})", "min({c}, {v})", "max({v}, {c})", "abs({v} - {c})", "int({v} * 1.5)", "({v} if {v} > {c} else {c})", "max({c}, {c}, {v})", "min(max({c}, {v}), 200)",
                                 "({c} if {v} > 10 else 150)", "(5 if {v} < {c} else 90)", "(20 if not {v} == 7 else {c})"])
                site = r.choice(["sleep({})", "led.set_brightness({})", "sv.write({})", "mon.write({})"])
                target_list.append((site.format(form.format(c=c, v=v[0])), site.format(form.format(c=c, v=v[1]))))
                return
            elif k == "augstr":
                # after an augmented assignment the name is run-time-only: len() right behind it follows the device value
                target_list.append((f'tag += "{r.choice(["x", "yz", ""])}"',) * 2)
                target_list.append((r.choice(["mon.write(len(tag))", "sleep(len(tag))", 'mon.write(len(f"<{tag}>"))']),) * 2)
                return
            elif k == "globalexpr":
                a = lit(r.randint(1, 20))
                target_list.append((f"g = g + {a[0]}", f"g = g + {a[1]}"))
                target_list.append(("mon.write(g)",) * 2)
                return
            if fmt is None:
                return
            target_list.append((fmt.format(*[a for a, _b in pairs]), fmt.format(*[b for _a, b in pairs])))

        for _ in range(ops):
            emit_op(body_setup if r.random() < 0.6 else body_loop)
        # a helper whose parameter is renamed so that it shadows a top-level constant of another value:
        # renaming a parameter consistently never changes what Python does
        helper_p: List[str] = []
        helper_q: List[str] = []
        if r.random() < 0.5:
            gname = name("msg")
            gval = r.choice(["hello", "abcdefgh", "x"])
            arg = r.choice(["hi", "", "a longer argument"])
            body_kind = r.choice(["len", "len_sleep", "len_cmp"])
            for param, out in (("q", helper_p), (gname, helper_q)):
                out.append(f"{gname} = {gval!r}")
                out.append(f"def show({param}):")
                if body_kind == "len":
                    out.append(f"    mon.write(len({param}))")
                elif body_kind == "len_sleep":
                    out.append(f"    sleep(len({param}) * 3)")
                    out.append(f"    mon.write({param})")
                else:
                    out.append(f"    if len({param}) > 3:")
                    out.append("        led.toggle()")
                    out.append(f"    mon.write(len({param}) + 1)")
                out.append(f"show({arg!r})")
                out.append(f"mon.write(len({gname}))")
            body_loop.append((f"show({(arg + 'z')!r})",) * 2)
        # a top-level name first defined *after* the (dead or live) re-assignments, from a foldable expression over
        # one of the names: a global initialiser must not be evaluated ahead of the assignments that precede it
        late_p: List[str] = []
        late_q: List[str] = []
        if int_names and r.random() < 0.7:
            nm, val = r.choice(int_names)
            c = r.randint(1, 9)
            form = r.choice(["{} + {}", "{} * 2 + {}", "{} - {}"])
            late_p = ["late = " + form.format(val, c), "mon.write(late)"]
            late_q = ["late = " + form.format(nm, c), "mon.write(late)"]
        p_text = head + [a for a, _b in p_lines] + helper_p + late_p + [a for a, _b in body_setup]
        q_text = head + binds + [b for _a, b in p_lines] + helper_q
        # dead mutations: in a never-taken branch and in a zero-trip loop, placed before and after the uses
        def dead_block(lines):
            out = []
            if not lines:
                return out
            sel = [l for l in lines if r.random() < 0.7]
            if not sel:
                return out
            if live:
                # only plain int re-assignments are used live (`x = x + 1`, `x += 3`): lists/strings feed fold sites
                sel = [l for l in sel if " + 1" in l or "+= 3" in l]
                if not sel:
                    return out
                out.append(r.choice(["if pot.read() >= 0:", "for z in range(2):", "if True:"]))
            elif r.random() < 0.5:
                out.append("if pot.read() > 5000:")
            else:
                out.append("for z in range(0):")
            out += ["    " + l for l in sel]
            return out

        q_text += dead_block(dead)
        q_text += late_q
        q_text += [b for _a, b in body_setup]
        if r.random() < 0.5:
            q_text += dead_block(dead)
        if use_lcd:
            p_text.append('mon.write("@setup")')
            q_text.append('mon.write("@setup")')
        p_text.append("while True:")
        q_text.append("while True:")
        loop_p = [a for a, _b in body_loop] or ["sleep(1)"]
        loop_q = [b for _a, b in body_loop] or ["sleep(1)"]
        p_text += ["    " + l for l in loop_p] + ['    mon.write("tick")']
        q_text += ["    " + l for l in loop_q] + ["    " + l for l in dead_block(dead)] + ['    mon.write("tick")']
        script_p = "\n".join(p_text) + "\n"
        script_q = "\n".join(q_text) + "\n"
        world = random_world(rng, script_q, r.choice([1, 2, 3, 3]) if live else r.choice([0, 1, 2, 3]))
        world["pulse"] = {"23": [r.choice([0, 800, 5000]) for _ in range(12)]}
        if live:
            # pins and counts must stay legal after the live increments: only the P' vs host comparison applies
            return {"script": script_q, "literal_script": None, "worlds": [world], "has_host": True, "live": True}
        return {"script": script_q, "literal_script": script_p, "worlds": [world], "has_host": not (use_bz or use_us or use_lcd)}

    def execute(self, case: dict) -> Outcome:
        from dst.board import build
        from dst.engines.e6_lcd import board_syncs

        world = case["worlds"][0]
        out = None
        if case.get("has_host"):
            out = super().execute(case)
            if out.status != "ok":
                return out
        if case.get("literal_script") is None:
            return out if out is not None else Outcome("discard", message="nothing to compare")
        logs = []
        for text in (case["literal_script"], case["script"]):
            try:
                cpp = transpile(text)
            except (ValueError, SyntaxError) as exc:
                logs.append(exc)
                continue
            try:
                binary = build.build_sketch(cpp)
            except build.BuildError as exc:
                return Outcome("violation", cls="build", message="firmware does not build: " + _first_error(exc.stderr))
            try:
                run = build.run_sketch(binary, world)
            finally:
                build.discard(binary)
            logs.append(run)
        if isinstance(logs[0], Exception) or isinstance(logs[1], Exception):
            if isinstance(logs[0], Exception) and isinstance(logs[1], Exception):
                return Outcome("rejected", message=str(logs[0])[:160], probes={"rejected": 1})
            which = "literal form" if isinstance(logs[0], Exception) else "named form"
            bad = logs[0] if isinstance(logs[0], Exception) else logs[1]
            # a rejection of only one form is allowed by the property (it speaks of behaviour), but is counted
            return Outcome("rejected", message=f"only the {which} is rejected: {bad}"[:200], probes={"rejected_one_form": 1})
        t_lit = parse_board_log(logs[0].log, logs[0].exit_code, logs[0].stderr)
        t_var = parse_board_log(logs[1].log, logs[1].exit_code, logs[1].stderr)
        if t_var.status != "ok":
            return Outcome("violation", cls=f"status/{t_var.status}", message=t_var.detail[:300])
        div = compare(t_var, t_lit, check_time=True)
        if div is not None:
            return Outcome("violation", cls="meta/" + "/".join(div.key()), message="named form (board) vs literal form (host column): " + div.describe())
        s_lit, _ = board_syncs(logs[0].log)
        s_var, _ = board_syncs(logs[1].log)
        if [(m, {i: d["rows"] for i, d in b.items()}) for m, b in s_lit] != [(m, {i: d["rows"] for i, d in b.items()}) for m, b in s_var]:
            return Outcome("violation", cls="meta/lcd", message="LCD contents differ between the literal and the named form")
        g_lit = [l.split(" ", 2)[2] for l in logs[0].log.splitlines() if " GLYPH " in l]
        g_var = [l.split(" ", 2)[2] for l in logs[1].log.splitlines() if " GLYPH " in l]
        if g_lit != g_var:
            return Outcome("violation", cls="meta/glyph", message=f"glyph uploads differ: literal {g_lit[:2]} named {g_var[:2]}")
        return Outcome("ok", digest=sha(case["script"])[:16], nontrivial=nontrivial(t_var), sim_ms=t_var.end_ms,
                       probes={"host_compared": int(bool(case.get("has_host")))})

    def sample_view(self, case: dict):
        return {"literal": case["literal_script"], "named": case["script"]}

    def shrink_candidates(self, case: dict):
        if case.get("literal_script") is None:
            yield from ScriptEngine.shrink_candidates(self, case)
