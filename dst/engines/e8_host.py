"""E8 - host model histories: operation + invalid-argument sequences against the host-side
classes, virtual sleep, invariants after every call, small executable reference models.
"""

from __future__ import annotations

import copy
import math
from fractions import Fraction
from typing import Dict, Iterable, List, Optional, Tuple

from dst.core.common import setup_repo_import, sha
from dst.core.runner import Engine, Outcome

setup_repo_import()


def _decode(v):
    """JSON-safe argument encoding: special floats travel as strings."""

    if isinstance(v, str) and v.startswith("#f:"):
        return float(v[3:])
    if isinstance(v, list):
        return [_decode(x) for x in v]
    return v


def _enc_float(x: float):
    if isinstance(x, float) and (math.isnan(x) or math.isinf(x)):
        return "#f:" + repr(x)
    return x


class _SleepRecorder:
    """Minimal recorder for the virtual clock seam (Reduino.Utils.time)."""

    no_log = True  # the executor's pin loggers stay silent for this recorder

    def __init__(self) -> None:
        self.sleep_calls: List[float] = []
        self.now_ms = 0.0
        self.phase = -1
        self.trace = None

    def sleep_seconds(self, seconds: float) -> None:
        self.sleep_calls.append(float(seconds) * 1000.0)

    def pin(self, *a, **k):
        pass

    def event(self, *a, **k):
        pass


INT_POOL = [0, 1, 2, 3, 5, 10, 50, 127, 128, 254, 255, 256, 300, -1, -5, 1000]
FLOAT_POOL = [0.0, 0.5, 1.0, 1.5, 2.5, 12.7, 254.5, 255.0, 255.5, -0.5, -1.0, 90.0, 180.0, 181.0, 1e9, -1e9]
BAD_POOL = ["abc", None, [1], "12"]
SPEED_POOL = [0.0, 0.25, -0.25, 0.5, -0.5, 1.0, -1.0, 0.001, 1.5, -2.0, 1, -1, 0, True, False, 1e-12, 100]


class E8Actuators(Engine):
    name = "e8-actuators"
    property_id = "C19"
    components_real = ["Reduino.Actuators.Led/RGBLed/Servo/DCMotor", "Reduino.Utils.sleep (validation, ms->s)"]
    components_stub = ["time.sleep (virtual clock behind Reduino.Utils.time)"]
    assumptions = [
        "NaN/inf arguments are generated only when the feature 'nan_args' is on (recorded separately)",
        "a call that raises for an invalid *sequence* argument (flash_pattern entries) is exempt from the atomicity rule, as in the statement",
    ]
    rule = (
        "seeded call histories (1-30 calls) on one Led/RGBLed/Servo/DCMotor object, arguments from in-range, "
        "boundary, out-of-range and wrong-type pools; invariants, failed-call atomicity (deep snapshot), sleep "
        "accounting and a reference model of the motor mode are checked after every call; non-trivial = at least "
        "one successful state-changing call and one failing call; distinct = digest of the history"
    )

    def setup(self) -> None:
        from dst.host import executor

        executor.install()

    # ------------------------------------------------------------ generation
    def generate(self, rng, tier: str, avoid) -> dict:
        kind = rng.choice(["led", "rgb", "servo", "motor"])
        n = rng.randint(1, 30 if tier == "quick" else 60)
        nan_ok = "nan_args" not in avoid
        ops = []

        def num(pool_bias: str = "int"):
            r = rng.random()
            if r < 0.08:
                return rng.choice(BAD_POOL)
            if r < 0.12 and nan_ok:
                return rng.choice(["#f:nan", "#f:inf", "#f:-inf"])
            if r < 0.2:
                return rng.choice([True, False])
            if pool_bias == "int":
                return rng.choice(INT_POOL) if rng.random() < 0.75 else rng.choice(FLOAT_POOL)
            return rng.choice(FLOAT_POOL) if rng.random() < 0.6 else rng.choice(INT_POOL)

        ctor: dict = {}
        if kind == "led":
            ctor = {"pin": rng.choice([13, 9, 3])}
            for _ in range(n):
                m = rng.choice(["on", "off", "toggle", "set_brightness", "set_brightness", "blink", "fade_in", "fade_out", "flash_pattern", "get"])
                if m in ("on", "off", "toggle", "get"):
                    ops.append([m, [], {}])
                elif m == "set_brightness":
                    ops.append([m, [num()], {}])
                elif m == "blink":
                    dur = rng.choice([0, 1, 5, 20, 2.5, -1, -0.5]) if rng.random() < 0.8 else num()
                    times = rng.choice([1, 2, 3, 0, -1, 1.5]) if rng.random() < 0.8 else num()
                    ops.append([m, [dur], {"times": times}] if rng.random() < 0.5 else [m, [dur, times], {}])
                elif m in ("fade_in", "fade_out"):
                    step = rng.choice([1, 5, 50, 51, 85, 128, 255, 300, 0, -5, 0.5, 12.5]) if rng.random() < 0.85 else num()
                    delay = rng.choice([0, 1, 10, 2.5, -1]) if rng.random() < 0.85 else num()
                    ops.append([m, [], {"step": step, "delay_ms": delay}])
                else:
                    pat = [rng.choice([0, 1, 1, 0, 2, 128, 255, 256, -1, 0.5, True]) for _ in range(rng.randint(0, 6))]
                    if rng.random() < 0.1:
                        pat.append("x")
                    ops.append([m, [pat], {"delay_ms": rng.choice([0, 5, 200, -1])}])
        elif kind == "rgb":
            ctor = {"pins": [9, 10, 11]}
            comp = lambda: (rng.choice([0, 1, 127, 128, 254, 255]) if rng.random() < 0.75 else num())  # noqa: E731
            for _ in range(n):
                m = rng.choice(["set_color", "set_color", "on", "off", "fade", "fade", "blink", "get"])
                if m in ("off", "get"):
                    ops.append([m, [], {}])
                elif m == "on":
                    ops.append([m, [comp() for _ in range(rng.choice([0, 3, 3, 1]))], {}])
                elif m == "set_color":
                    ops.append([m, [comp(), comp(), comp()], {}])
                elif m == "fade":
                    dur = rng.choice([0, 1, 10, 100, 33.3, -1]) if rng.random() < 0.85 else num()
                    steps = rng.choice([1, 2, 3, 7, 50, 0, -2, 2.5]) if rng.random() < 0.85 else num()
                    ops.append([m, [comp(), comp(), comp()], {"duration_ms": dur, "steps": steps}])
                else:
                    times = rng.choice([1, 2, 3, 0, -1, 1.5]) if rng.random() < 0.85 else num()
                    delay = rng.choice([0, 1, 20, 0.5, -3]) if rng.random() < 0.85 else num()
                    ops.append([m, [comp(), comp(), comp()], {"times": times, "delay_ms": delay}])
        elif kind == "servo":
            amin = rng.choice([0.0, -90.0, 10.0])
            amax = amin + rng.choice([90.0, 180.0, 270.0])
            pmin = rng.choice([500.0, 544.0, 1000.0])
            pmax = rng.choice([2000.0, 2400.0, 2500.0])
            ctor = {"pin": 9, "min_angle": amin, "max_angle": amax, "min_pulse_us": pmin, "max_pulse_us": pmax}
            for _ in range(n):
                m = rng.choice(["write", "write", "write_us", "write_us", "get"])
                if m == "get":
                    ops.append([m, [], {}])
                elif m == "write":
                    r = rng.random()
                    if r < 0.6:
                        v = round(amin + (amax - amin) * rng.random(), 3)
                    elif r < 0.8:
                        v = rng.choice([amin, amax, amin - 0.001, amax + 0.001, amin - 50, amax + 50])
                    else:
                        v = num("float")
                    ops.append([m, [v], {}])
                else:
                    r = rng.random()
                    if r < 0.6:
                        v = round(pmin + (pmax - pmin) * rng.random(), 2)
                    elif r < 0.8:
                        v = rng.choice([pmin, pmax, pmin - 1, pmax + 1, 0, 10000])
                    else:
                        v = num("float")
                    ops.append([m, [v], {}])
        else:
            ctor = {"pins": [4, 5, 6]}
            sp = lambda: (rng.choice(SPEED_POOL) if rng.random() < 0.85 else num("float"))  # noqa: E731
            for _ in range(n):
                m = rng.choice(["set_speed", "set_speed", "backward", "stop", "coast", "invert", "invert", "ramp", "run_for", "get"])
                if m in ("stop", "coast", "invert", "get"):
                    ops.append([m, [], {}])
                elif m == "set_speed":
                    ops.append([m, [sp()], {}])
                elif m == "backward":
                    ops.append([m, [sp()] if rng.random() < 0.7 else [], {}])
                elif m == "ramp":
                    dur = rng.choice([0, 1, 20, 100, 33.3, -1]) if rng.random() < 0.85 else num()
                    ops.append([m, [sp(), dur], {}])
                else:
                    dur = rng.choice([0, 1, 20, 2.5, -1]) if rng.random() < 0.85 else num()
                    ops.append([m, [dur, sp()], {}])
        return {"kind": kind, "ctor": ctor, "ops": ops}

    # ------------------------------------------------------------ execution
    def execute(self, case: dict) -> Outcome:
        from dst.host import executor
        from Reduino.Actuators import DCMotor, Led, RGBLed, Servo

        kind = case["kind"]
        ctor = case["ctor"]
        rec = _SleepRecorder()
        executor._CURRENT = rec
        try:
            if kind == "led":
                obj = Led(ctor["pin"])
            elif kind == "rgb":
                obj = RGBLed(*ctor["pins"])
            elif kind == "servo":
                obj = Servo(ctor["pin"], min_angle=ctor["min_angle"], max_angle=ctor["max_angle"],
                            min_pulse_us=ctor["min_pulse_us"], max_pulse_us=ctor["max_pulse_us"])
            else:
                obj = DCMotor(*ctor["pins"])
            trail: List[Tuple] = []
            if kind == "rgb":
                cls = type(obj)

                class Traced(cls):  # behaviour-neutral subclass: records the colour after each update
                    def set_color(self, red, green, blue):
                        super().set_color(red, green, blue)
                        trail.append(self.get_color())

                obj.__class__ = Traced
            elif kind == "motor":
                cls = type(obj)

                class TracedM(cls):
                    def _apply_speed(self, speed):
                        super()._apply_speed(speed)
                        trail.append(self._speed)

                obj.__class__ = TracedM
            last_cmd = "init"
            ok_calls = fail_calls = 0
            for idx, (method, args, kwargs) in enumerate(case["ops"]):
                args = [_decode(a) for a in args]
                kwargs = {k: _decode(v) for k, v in kwargs.items()}
                before = copy.deepcopy({k: v for k, v in vars(obj).items()})
                rec.sleep_calls.clear()
                del trail[:]
                raised: Optional[BaseException] = None
                if method == "get":
                    pass
                else:
                    try:
                        getattr(obj, method)(*args, **kwargs)
                    except (ValueError, TypeError) as exc:
                        raised = exc
                    except OverflowError as exc:
                        raised = exc
                    except Exception as exc:  # any other exception type is unexpected
                        return self._bad(case, idx, "exception", f"{method} raised {type(exc).__name__}: {exc}")
                after = {k: v for k, v in vars(obj).items()}
                if raised is None and method != "get":
                    ok_calls += 1
                    last_cmd = method
                elif raised is not None:
                    fail_calls += 1
                    scalar_only = method != "flash_pattern"
                    if scalar_only and not _same_state(before, after):
                        return self._bad(case, idx, "atomicity", f"{method}{tuple(args)} raised {type(raised).__name__} but changed the object: {before} -> {after}")
                msg = self._invariants(kind, obj, ctor)
                if msg:
                    return self._bad(case, idx, "invariant", f"after {method}{tuple(args)}{kwargs or ''}: {msg}")
                if raised is None:
                    msg = self._call_contract(kind, obj, method, args, kwargs, before, rec.sleep_calls, trail, last_cmd)
                    if msg:
                        return self._bad(case, idx, "contract", f"{method}{tuple(args)}{kwargs or ''}: {msg}")
                if kind == "motor":
                    msg = self._motor_mode(obj, last_cmd)
                    if msg:
                        return self._bad(case, idx, "mode", f"after {method}{tuple(args)}: {msg}")
            digest = sha(repr(case["ops"]) + kind)[:16]
            return Outcome("ok", digest=digest, nontrivial=ok_calls > 0 and fail_calls > 0,
                           faults={"invalid_scalar_arg": fail_calls}, probes={f"kind_{kind}": 1, "calls": len(case["ops"])})
        finally:
            executor._CURRENT = None

    def _bad(self, case, idx, cls, message) -> Outcome:
        return Outcome("violation", cls=f"{case['kind']}/{cls}", message=f"op {idx}: {message}"[:400])

    @staticmethod
    def _invariants(kind: str, obj, ctor) -> str:
        if kind == "led":
            b = obj.brightness
            if not isinstance(b, int) or isinstance(b, bool) or not 0 <= b <= 255:
                return f"brightness {b!r} not an int in 0-255"
            if obj.get_state() is not (b > 0):
                return f"state {obj.get_state()!r} but brightness {b}"
            if obj.get_brightness() != b:
                return "get_brightness disagrees"
        elif kind == "rgb":
            c = obj.get_color()
            if len(c) != 3 or any((not isinstance(v, int)) or isinstance(v, bool) or not 0 <= v <= 255 for v in c):
                return f"colour {c!r} not three ints in 0-255"
            if obj.get_state() is not any(v > 0 for v in c):
                return f"state {obj.get_state()!r} but colour {c}"
        elif kind == "servo":
            a, p = obj.read(), obj.read_us()
            amin, amax, pmin, pmax = ctor["min_angle"], ctor["max_angle"], ctor["min_pulse_us"], ctor["max_pulse_us"]
            if not (amin - 1e-9 <= a <= amax + 1e-9):
                return f"angle {a} outside [{amin}, {amax}]"
            if not (pmin - 1e-6 <= p <= pmax + 1e-6):
                return f"pulse {p} outside [{pmin}, {pmax}]"
            expect_p = pmin + (a - amin) / (amax - amin) * (pmax - pmin)
            if abs(expect_p - p) > 1e-6 * max(1.0, abs(p)):
                return f"angle {a} and pulse {p} do not correspond (expected pulse {expect_p})"
        else:
            s, ap = obj.get_speed(), obj.get_applied_speed()
            if not (isinstance(s, float) and abs(s) <= 1.0):
                return f"speed {s!r} not a float with |speed| <= 1"
            want = -s if obj.is_inverted() else s
            if not (ap == want):
                return f"applied {ap!r} but speed {s!r} inverted={obj.is_inverted()}"
            if obj.get_mode() not in ("drive", "coast", "brake"):
                return f"mode {obj.get_mode()!r}"
            if (obj.get_mode() == "drive") != (ap != 0):
                return f"mode {obj.get_mode()!r} with applied speed {ap!r}"
        return ""

    @staticmethod
    def _motor_mode(obj, last_cmd: str) -> str:
        if obj.get_applied_speed() != 0:
            return ""
        want = "brake" if last_cmd in ("stop", "run_for") else "coast"
        if obj.get_mode() != want:
            return f"mode {obj.get_mode()!r} with zero applied speed after last command {last_cmd!r}, expected {want!r}"
        return ""

    @staticmethod
    def _call_contract(kind, obj, method, args, kwargs, before, sleeps, trail, last_cmd) -> str:
        total = sum(sleeps)
        if kind == "led":
            if method == "blink":
                dur = args[0]
                times = kwargs.get("times", args[1] if len(args) > 1 else 1)
                want = 2 * times * float(dur)
                if abs(total - want) > 1e-6 * max(1.0, abs(want)):
                    return f"slept {total} ms, expected 2*times*duration = {want}"
                if obj.brightness != 0:
                    return "blink did not end off"
            if method == "fade_in" and obj.brightness != 255:
                return "fade_in did not end at 255"
            if method == "fade_out" and obj.brightness != 0:
                return "fade_out did not end at 0"
            if method == "on" and obj.brightness != 255:
                return "on() did not set 255"
            if method == "off" and obj.brightness != 0:
                return "off() did not set 0"
            if method == "toggle" and (obj.brightness > 0) == (before["brightness"] > 0):
                return "toggle did not flip the state"
            if method == "set_brightness" and obj.brightness != int(args[0]):
                return f"brightness {obj.brightness} after set_brightness({args[0]!r})"
        if kind == "rgb":
            if method in ("set_color", "on"):
                want = tuple(int(a) for a in args) if args else (255, 255, 255)
                if len(want) == 1:
                    want = (want[0], 255, 255)
                if obj.get_color() != want:
                    return f"colour {obj.get_color()} expected {want}"
            if method == "off" and obj.get_color() != (0, 0, 0):
                return "off() did not clear the colour"
            if method == "blink":
                if obj.get_color() != before["_color"]:
                    return f"blink ended on {obj.get_color()} instead of the original colour {before['_color']}"
                times, delay = kwargs["times"], kwargs["delay_ms"]
                want = 2 * times * float(delay)
                if abs(total - want) > 1e-6 * max(1.0, abs(want)):
                    return f"slept {total} ms, expected 2*times*delay = {want}"
            if method == "fade":
                target = tuple(int(a) for a in args[:3])
                dur, steps = kwargs["duration_ms"], kwargs["steps"]
                if obj.get_color() != target:
                    return f"fade ended on {obj.get_color()} instead of the target {target}"
                if total > float(dur) * (1 + 1e-9) + 1e-9:
                    return f"slept {total} ms, longer than the requested {dur}"
                start = before["_color"]
                shortcut = dur == 0 or start == target
                if shortcut:
                    if len(trail) > max(1, steps):
                        return f"{len(trail)} updates for steps={steps}"
                elif len(trail) != steps:
                    return f"{len(trail)} steps instead of {steps}"
                prev = start
                for col in trail:
                    for ch in range(3):
                        lo, hi = sorted((start[ch], target[ch]))
                        if not lo <= col[ch] <= hi:
                            return f"step colour {col} leaves the interval between start {start} and target {target}"
                        if (target[ch] - start[ch]) * (col[ch] - prev[ch]) < 0:
                            return f"non-monotone step {prev} -> {col}"
                    prev = col
        if kind == "servo":
            if method == "write" and obj.read() != float(args[0]):
                return f"read() {obj.read()} after write({args[0]!r})"
            if method == "write_us" and obj.read_us() != float(args[0]):
                return f"read_us() {obj.read_us()} after write_us({args[0]!r})"
        if kind == "motor":
            def clamp(v):
                v = float(v)
                return 1.0 if v > 1.0 else (-1.0 if v < -1.0 else v)

            if method == "set_speed" and obj.get_speed() != clamp(args[0]):
                return f"speed {obj.get_speed()} after set_speed({args[0]!r})"
            if method == "backward":
                want = -abs(clamp(args[0] if args else 1.0))
                if obj.get_speed() != want:
                    return f"speed {obj.get_speed()} after backward, expected {want}"
            if method in ("stop", "coast") and (obj.get_speed() != 0 or obj.get_applied_speed() != 0):
                return f"{method} left speed {obj.get_speed()}"
            if method == "invert":
                if obj.is_inverted() == before["_inverted"]:
                    return "invert() did not toggle"
                if obj.get_speed() != before["_speed"]:
                    return "invert() changed the requested speed"
            if method == "ramp":
                target = clamp(args[0])
                dur = args[1]
                if abs(obj.get_speed() - target) > 1e-9:
                    return f"ramp ended at {obj.get_speed()} instead of {target}"
                if len(trail) != 20:
                    return f"{len(trail)} ramp steps instead of 20"
                start = before["_speed"]
                prev = start
                for v in trail:
                    if (target - start) * (v - prev) < -1e-12:
                        return f"non-monotone ramp step {prev} -> {v}"
                    prev = v
                if total > float(dur) * (1 + 1e-9) + 1e-9:
                    return f"ramp slept {total} ms, longer than the requested {dur}"
            if method == "run_for":
                dur = args[0]
                if abs(total - float(dur)) > 1e-9 * max(1.0, abs(float(dur))):
                    return f"run_for slept {total} ms, expected {dur}"
                if obj.get_mode() != "brake" or obj.get_speed() != 0:
                    return f"run_for ended in mode {obj.get_mode()!r} speed {obj.get_speed()}"
        return ""

    def shrink_candidates(self, case: dict) -> Iterable[dict]:
        ops = case["ops"]
        for i in range(len(ops) - 1, -1, -1):
            c = copy.deepcopy(case)
            del c["ops"][i]
            yield c


def _same_state(a: dict, b: dict) -> bool:
    if a.keys() != b.keys():
        return False
    for k in a:
        va, vb = a[k], b[k]
        if isinstance(va, float) and isinstance(vb, float) and math.isnan(va) and math.isnan(vb):
            continue
        if type(va) is not type(vb) or va != vb:
            return False
    return True


# ====================================================================== C20


class E8Helpers(Engine):
    name = "e8-helpers"
    property_id = "C20"
    components_real = [
        "Reduino.Core pin helpers", "Reduino.Utils.map/sleep", "Reduino.Sensors.Button/Potentiometer/Ultrasonic",
        "Reduino.Communication.SerialMonitor",
    ]
    components_stub = ["pyserial (fake port object)", "sleep_func (recording callable)", "sensor providers (seeded sequences)"]
    assumptions = ["module-level pin state of Reduino.Core is reset by the harness between runs (it is process-global)"]
    rule = (
        "seeded interleavings (5-60 ops) of pin_mode/digital_write/analog_write/reads over int and numeric-string "
        "pins, map/sleep calls over numeric pools, provider sequences for Button/Potentiometer/Ultrasonic, values "
        "written to a SerialMonitor bound to a fake port (open / closed / unconfigured); compared call by call with "
        "a dict/list reference model and exact rational arithmetic; distinct = digest of the op list"
    )

    def setup(self) -> None:
        from dst.host import executor

        executor.install()

    def generate(self, rng, tier: str, avoid) -> dict:
        n = rng.randint(5, 60)
        pins = [2, 7, "7", 13, "13", "A0", 0, "0", "07", " 7"]
        modes = ["INPUT", "OUTPUT", "INPUT_PULLUP"]
        ops = []
        serial_mode = rng.choice(["open", "open", "closed", "unconfigured"])
        for _ in range(n):
            k = rng.choice(["pin_mode", "dw", "aw", "dr", "ar", "dr", "ar", "map", "sleep", "button", "pot", "sonic", "ser", "ser"])
            if k == "pin_mode":
                ops.append([k, rng.choice(pins), rng.choice(modes)])
            elif k == "dw":
                ops.append([k, rng.choice(pins), rng.choice([0, 1, True, False, 2, -1, 0.0, 0.5])])
            elif k == "aw":
                ops.append([k, rng.choice(pins), rng.choice([0, 1, 127, 255, 256, 300, -1, -20, 2.5, 3.5, 254.5, 127.49, 1e6])])
            elif k in ("dr", "ar"):
                ops.append([k, rng.choice(pins)])
            elif k == "map":
                pool = [0, 1, 5, 10, 100, 512, 1023, -5, 2.5, 0.1, 1e6, -1023, 3]
                a = [rng.choice(pool) for _ in range(5)]
                if rng.random() < 0.15:
                    a[2] = a[1]
                ops.append([k] + a)
            elif k == "sleep":
                ops.append([k, rng.choice([0, 1, 250, 2.5, 0.001, 1e6, -1, -0.001])])
            elif k == "button":
                ops.append([k, [rng.randint(0, 1) for _ in range(rng.randint(1, 12))], rng.random() < 0.8])
            elif k == "pot":
                ops.append([k, [rng.choice([0, 1, 512, 1023, 1024, -1, 700, 1022.9, 3.7]) for _ in range(rng.randint(1, 6))]])
            elif k == "sonic":
                ops.append([k, [rng.choice([0, 0.0, 12.5, 400, 1e6, -0.001, -5, 3]) for _ in range(rng.randint(1, 6))]])
            else:
                ops.append([k, rng.choice([0, 5, -3, 2.5, True, "hello", "", "a b", "tab\there", None, 1e20, "ünï",
                                           "\n", "line\n", "two\n\n", "a\nb", "crlf\r\n", "\r", " "])])
        return {"ops": ops, "serial_mode": serial_mode}

    def execute(self, case: dict) -> Outcome:
        from dst.host import executor
        import Reduino.Core as core
        import Reduino.Utils as utils
        from Reduino.Communication.SerialMonitor import SerialMonitor
        from Reduino.Sensors import Button, Potentiometer, Ultrasonic

        executor._reset_module_state()
        executor._CURRENT = None
        # reference model of the pin memory
        modes: Dict[object, str] = {}
        dig: Dict[object, int] = {}
        ana: Dict[object, int] = {}

        def norm(pin):
            return int(pin) if isinstance(pin, str) and pin.isdigit() else pin

        mode = case.get("serial_mode", "open")
        if mode == "unconfigured":
            mon = SerialMonitor(9600)
            port = None
        else:
            mon = SerialMonitor(9600, "COM9")
            port = mon._serial
            if mode == "closed":
                port.close()
        sent_model: List[bytes] = []
        faults = {"serial_" + mode: 1}
        for idx, op in enumerate(case["ops"]):
            k = op[0]
            try:
                if k == "pin_mode":
                    core.pin_mode(op[1], op[2])
                    modes[norm(op[1])] = op[2]
                elif k == "dw":
                    core.digital_write(op[1], op[2])
                    dig[norm(op[1])] = 1 if op[2] else 0
                elif k == "aw":
                    core.analog_write(op[1], op[2])
                    got = core.analog_read(op[1])
                    want = min(255.0, max(0.0, float(op[2])))
                    if not (isinstance(got, int) and 0 <= got <= 255 and abs(got - want) <= 0.5 + 1e-9):
                        return self._bad(idx, "pins", f"analog_write({op[1]!r}, {op[2]!r}) then analog_read -> {got!r}")
                    ana[norm(op[1])] = got
                elif k == "dr":
                    got = core.digital_read(op[1])
                    key = norm(op[1])
                    want = dig[key] if key in dig else (1 if modes.get(key) == "INPUT_PULLUP" else 0)
                    if got != want:
                        return self._bad(idx, "pins", f"digital_read({op[1]!r}) -> {got!r}, model {want} (mode {modes.get(key)})")
                elif k == "ar":
                    got = core.analog_read(op[1])
                    want = ana.get(norm(op[1]), 0)
                    if got != want:
                        return self._bad(idx, "pins", f"analog_read({op[1]!r}) -> {got!r}, model {want}")
                elif k == "map":
                    v, fl, fh, tl, th = op[1:]
                    try:
                        got = utils.map(v, fl, fh, tl, th)
                    except ValueError:
                        if fl != fh:
                            return self._bad(idx, "map", f"map{tuple(op[1:])} raised although the source range is not empty")
                        continue
                    if fl == fh:
                        return self._bad(idx, "map", f"map{tuple(op[1:])} accepted a zero-width source range")
                    F = Fraction
                    exact = F(tl) + (F(v) - F(fl)) / (F(fh) - F(fl)) * (F(th) - F(tl))
                    scale = max(abs(float(exact)), abs(float(tl)), abs(float(th)), abs(float(F(th) - F(tl)) * float(abs((F(v) - F(fl)) / (F(fh) - F(fl))))), 1e-300)
                    if abs(Fraction(got) - exact) > Fraction(scale) * Fraction(1, 10**12):
                        return self._bad(idx, "map", f"map{tuple(op[1:])} -> {got!r}, exact {float(exact)!r}")
                elif k == "sleep":
                    calls: List[float] = []
                    try:
                        utils.sleep(op[1], sleep_func=calls.append)
                    except ValueError:
                        if op[1] >= 0:
                            return self._bad(idx, "sleep", f"sleep({op[1]!r}) raised")
                        if calls:
                            return self._bad(idx, "sleep", f"sleep({op[1]!r}) raised after sleeping")
                        continue
                    if op[1] < 0:
                        return self._bad(idx, "sleep", f"sleep({op[1]!r}) accepted a negative duration")
                    if len(calls) != 1 or abs(calls[0] - op[1] / 1000.0) > 1e-12 * max(1.0, abs(op[1])):
                        return self._bad(idx, "sleep", f"sleep({op[1]!r}) called the sleeper with {calls!r}")
                elif k == "button":
                    seq, with_cb = op[1], op[2]
                    clicks: List[int] = []
                    it = iter(seq)
                    btn = Button(7, on_click=(lambda: clicks.append(1)) if with_cb else None, state_provider=lambda: next(it))
                    prev = 0
                    edges = 0
                    for level in seq:
                        got = btn.is_pressed()
                        if got != (1 if level else 0):
                            return self._bad(idx, "button", f"is_pressed() -> {got!r} for level {level}")
                        if level and not prev:
                            edges += 1
                        prev = level
                    if with_cb and len(clicks) != edges:
                        return self._bad(idx, "button", f"{len(clicks)} clicks for {edges} rising edges of {seq}")
                elif k == "pot":
                    it = iter(op[1])
                    pot = Potentiometer("A0", value_provider=lambda: next(it))
                    for v in op[1]:
                        try:
                            got = pot.read()
                        except ValueError:
                            if 0 <= int(v) <= 1023:
                                return self._bad(idx, "pot", f"read() raised for provider value {v!r}")
                            continue
                        if not 0 <= v <= 1023 and not 0 <= int(v) <= 1023:
                            return self._bad(idx, "pot", f"read() returned {got!r} for provider value {v!r}")
                        if got != int(v):
                            return self._bad(idx, "pot", f"read() -> {got!r} for provider value {v!r}")
                elif k == "sonic":
                    it = iter(op[1])
                    son = Ultrasonic(7, 8, distance_provider=lambda: next(it))
                    for v in op[1]:
                        try:
                            got = son.measure_distance()
                        except ValueError:
                            if v >= 0:
                                return self._bad(idx, "sonic", f"measure_distance() raised for {v!r}")
                            continue
                        if v < 0:
                            return self._bad(idx, "sonic", f"measure_distance() returned {got!r} for negative {v!r}")
                        if got != float(v):
                            return self._bad(idx, "sonic", f"measure_distance() -> {got!r} for {v!r}")
                elif k == "ser":
                    got = mon.write(op[1])
                    if got != str(op[1]):
                        return self._bad(idx, "serial", f"write({op[1]!r}) returned {got!r}")
                    if mode == "open":
                        sent_model.append((str(op[1]) + "\n").encode("utf-8"))
                        if port.written != sent_model:
                            return self._bad(idx, "serial", f"port received {port.written[-1:]!r}, expected {sent_model[-1]!r}")
                    elif port is not None and port.written:
                        return self._bad(idx, "serial", "bytes sent to a closed port")
            except Exception as exc:
                return self._bad(idx, "exception", f"{op!r} raised {type(exc).__name__}: {exc}")
            # non-interference: every modelled pin still reads its modelled value
            for key, want in dig.items():
                if core.digital_read(key) != want:
                    return self._bad(idx, "pins", f"after {op!r}: pin {key!r} reads {core.digital_read(key)!r}, model {want}")
            for key, want in ana.items():
                if core.analog_read(key) != want:
                    return self._bad(idx, "pins", f"after {op!r}: pin {key!r} analog reads {core.analog_read(key)!r}, model {want}")
        kinds = {op[0] for op in case["ops"]}
        return Outcome("ok", digest=sha(repr(case))[:16], nontrivial=len(kinds) >= 3, faults=faults,
                       probes={"ops": len(case["ops"])})

    def _bad(self, idx, cls, message) -> Outcome:
        return Outcome("violation", cls=cls, message=f"op {idx}: {message}"[:400])

    def shrink_candidates(self, case: dict) -> Iterable[dict]:
        for i in range(len(case["ops"]) - 1, -1, -1):
            c = copy.deepcopy(case)
            del c["ops"][i]
            yield c
