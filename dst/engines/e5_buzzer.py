"""E5 - buzzer protocol monitors (C16): tone/noTone/delay events on the buzzer pin of the simulated
board against a per-call reference written from the statement (the host Buzzer is a placeholder)."""

from __future__ import annotations

import copy
import re
import math
import struct
from typing import Dict, Iterable, List, Optional, Tuple

from dst.core.common import setup_repo_import, sha
from dst.core.runner import Engine, Outcome
from dst.core.trace import parse_board_log

setup_repo_import()

# frozen copy of the score table (a changed note in the repository must be seen)
FROZEN_MELODIES = {
    "success": (240.0, [(523.25, 0.5), (659.25, 0.5), (783.99, 1.0)]),
    "error": (200.0, [(329.63, 0.5), (261.63, 1.5)]),
    "startup": (200.0, [(261.63, 0.5), (329.63, 0.5), (392.0, 0.5), (523.25, 1.0)]),
    "notify": (240.0, [(783.99, 0.25), (0.0, 0.25), (783.99, 0.5)]),
    "alarm": (200.0, [(523.25, 0.5), (392.0, 0.5)] * 4),
    "scale_c": (200.0, [(261.63, 0.5), (293.66, 0.5), (329.63, 0.5), (349.23, 0.5), (392.0, 0.5), (440.0, 0.5), (493.88, 0.5), (523.25, 1.0)]),
    "siren": (180.0, [(659.25, 0.75), (523.25, 0.75)] * 3),
}

HEAD = (
    'from Reduino import target\ntarget("COM3")\nfrom Reduino.Communication import SerialMonitor\n'
    "from Reduino.Utils import sleep\nfrom Reduino.Actuators import Buzzer\nfrom Reduino.Sensors import Potentiometer\n"
    'mon = SerialMonitor(9600, "COM3")\n'
)


def f32(x: float) -> float:
    return struct.unpack("f", struct.pack("f", float(x)))[0]


class BuzzGen:
    def __init__(self, rng, avoid, tier):
        self.rng = rng
        self.avoid = set(avoid)
        self.tier = tier
        self.lines: List[str] = []
        self.n = 0
        self.features = set()
        self.ain: List[int] = []
        self.ain_loop: List[int] = []

    def arg(self, value, depth: int) -> str:
        """Render a numeric value as literal, variable or potentiometer-derived run-time expression."""

        r = self.rng
        style = r.choice(["lit", "lit", "var", "sensor"])
        if style == "lit":
            return repr(value)
        self.n += 1
        name = f"a{self.n}"
        ind = "    " * depth
        if style == "var" or isinstance(value, float) and value != int(value):
            self.lines.append(f"{ind}{name} = {value!r}")
        else:
            reading = r.randint(0, 1023)
            (self.ain_loop if depth else self.ain).append(reading)
            self.lines.append(f"{ind}{name} = pot.read() + {int(value) - reading}")
        return name

    def generate(self) -> dict:
        r = self.rng
        pin = r.choice([3, 8, 9, 11])
        default = r.choice([None, 440.0, 660.0, 1000.0])
        form = f"bz = Buzzer({pin})" if default is None else f"bz = Buzzer({pin}, default_frequency={default})"
        if r.random() < 0.2 and default is None:
            form, pin = "bz = Buzzer()", 8
        self.lines = ['pot = Potentiometer("A0")', form]
        self.defs: List[str] = []
        calls = []
        n_calls = r.randint(1, 12 if self.tier == "quick" else 24)
        loop_at = r.randint(0, n_calls) if r.random() < 0.4 else None
        depth = 0
        for k in range(n_calls):
            if loop_at is not None and k == loop_at:
                self.lines.append("while True:")
                depth = 1
            ind = "    " * depth
            m = r.choice(["play_tone", "play_tone", "stop", "beep", "beep", "sweep", "melody"])
            call = {"method": m}
            if m == "play_tone":
                f = r.choice([440, 523, 880, 1, 4999, 0, -100, 261.63, r.randint(-100, 5000)])
                call["frequency"] = f
                fa = self.arg(f, depth)
                if r.random() < 0.6:
                    d = r.choice([0, 1, 5, 50, 500, 2.5, r.randint(0, 500)])
                    if "buzzer_negative_duration" not in self.avoid and r.random() < 0.15:
                        d = r.choice([-1, -50])
                        self.features.add("buzzer_negative_duration")
                    call["duration_ms"] = d
                    da = self.arg(d, depth)
                    text = r.choice([f"bz.play_tone({fa}, {da})", f"bz.play_tone({fa}, duration_ms={da})", f"bz.play_tone(frequency={fa}, duration_ms={da})"])
                else:
                    call["duration_ms"] = None
                    text = r.choice([f"bz.play_tone({fa})", f"bz.play_tone(frequency={fa})"])
            elif m == "stop":
                text = "bz.stop()"
            elif m == "beep":
                has_f = r.random() < 0.7
                f = r.choice([700, 880, 0, -5, 1200.5, r.randint(-100, 5000)]) if has_f else None
                on = r.choice([0, 1, 6, 40, 100])
                off = r.choice([0, 1, 3, 25, 100])
                times = r.choice([1, 2, 3, 6])
                if "beep_nonpositive_times" not in self.avoid and r.random() < 0.2:
                    times = r.choice([0, -1])
                    self.features.add("beep_nonpositive_times")
                call.update({"frequency": f, "on_ms": on, "off_ms": off, "times": times})
                parts = []
                if has_f:
                    parts.append(r.choice([self.arg(f, depth), f"frequency={self.arg(f, depth)}"]))
                kws = [f"on_ms={self.arg(on, depth)}", f"off_ms={self.arg(off, depth)}", f"times={self.arg(times, depth)}"]
                # every subset of the keyword-only defaults (on_ms=100, off_ms=100, times=1) may be left out
                if r.random() < 0.4:
                    keep = [r.random() < 0.5 for _ in kws]
                    if not keep[0]:
                        call["on_ms"] = 100
                    if not keep[1]:
                        call["off_ms"] = 100
                    if not keep[2]:
                        call["times"] = 1
                    kws = [k for k, used in zip(kws, keep) if used]
                r.shuffle(kws)
                text = f"bz.beep({', '.join(parts + kws)})"
            elif m == "sweep":
                start = r.choice([200, 300, 1000, 4000, 0, -50, r.randint(1, 5000)])
                end = r.choice([900, 100, 2000, 300, 0, r.randint(1, 5000)])
                dur = r.choice([0, 10, 20, 100, 333, r.randint(0, 500)])
                steps = r.choice([1, 2, 4, 10, 25, r.randint(1, 25)])
                if "sweep_nonpositive_steps" not in self.avoid and r.random() < 0.1:
                    steps = r.choice([0, -1])
                    self.features.add("sweep_nonpositive_steps")
                call.update({"start_hz": start, "end_hz": end, "duration_ms": dur, "steps": steps})
                sa, ea, da, sta = self.arg(start, depth), self.arg(end, depth), self.arg(dur, depth), self.arg(steps, depth)
                text = r.choice([
                    f"bz.sweep({sa}, {ea}, duration_ms={da}, steps={sta})",
                    f"bz.sweep({sa}, {ea}, steps={sta}, duration_ms={da})",
                    f"bz.sweep(start_hz={sa}, end_hz={ea}, duration_ms={da}, steps={sta})",
                ])
                if r.random() < 0.2:
                    call["steps"] = 10
                    text = f"bz.sweep({sa}, {ea}, duration_ms={da})"
            else:
                name = r.choice(sorted(FROZEN_MELODIES))
                tempo = r.choice([None, None, 120, 240, 300, 400, 90.5, 0, -10])
                call.update({"name": name, "tempo": tempo})
                # melody names are matched case-insensitively by the transpiler
                name = r.choice([name, name, name.capitalize(), name.upper(), name.title()])
                if tempo is None:
                    text = r.choice([f'bz.melody("{name}")', f'bz.melody(name="{name}")'])
                else:
                    ta = self.arg(tempo, depth)
                    text = r.choice([f'bz.melody("{name}", tempo={ta})', f'bz.melody(name="{name}", tempo={ta})'])
            if r.random() < 0.25 and not re.search(r"\ba\d+\b", text):
                # the same command issued from inside a helper function: the tracked buzzer state is global
                self.defs += [f"def act{k}():", "    " + text]
                text = f"act{k}()"
            self.lines.append(ind + text)
            self.lines.append(ind + "mon.write(bz.get_state())")
            self.lines.append(ind + "mon.write(bz.get_frequency())")
            self.lines.append(ind + "mon.write(bz.get_last_frequency())")
            self.lines.append(ind + f'mon.write("M{k}")')
            call["in_loop"] = depth == 1
            calls.append(call)
        if loop_at is not None and loop_at == n_calls:
            self.lines.append("while True:")
            self.lines.append("    sleep(1)")
        passes = r.choice([1, 2, 3]) if loop_at is not None else 0
        # every pass re-reads the potentiometer in the same order: repeat the setup readings, then the loop readings per pass
        return {
            "script": HEAD + "\n".join(self.lines[:2] + self.defs + self.lines[2:]) + "\n",
            "pin": pin,
            "default": 440.0 if default is None else default,
            "calls": calls,
            "ain": list(self.ain) + list(self.ain_loop) * max(1, passes),
            "passes": passes,
            "features": sorted(self.features),
        }


class E5Buzzer(Engine):
    name = "e5-buzzer"
    property_id = "C16"
    components_real = ["transpile.parser (buzzer binding) + emitter (play_tone/stop/beep/sweep/melody templates, score table) compiled natively"]
    components_stub = ["Arduino tone()/noTone()/delay() (mock: event log on a virtual clock)"]
    assumptions = [
        "the score table is compared with a frozen copy kept in /verif/dst/engines/e5_buzzer.py",
        "melody note durations are compared within 1 ms (float32 arithmetic on the device)",
    ]
    rule = (
        "seeded histories of 1-24 play_tone/stop/beep/sweep/melody calls (literal, variable and potentiometer-derived "
        "arguments incl. zero and negative frequencies, zero durations, all seven melodies, tempo <= 0), getters printed "
        "after every call, in setup and in the main loop; judged per call against a reference written from the statement; "
        "distinct = digest of the tone/noTone/delay event sequence"
    )

    def setup(self) -> None:
        from dst.board import build

        build.ensure_runtime("plain")

    def generate(self, rng, tier: str, avoid) -> dict:
        return BuzzGen(rng, avoid, tier).generate()

    def execute(self, case: dict) -> Outcome:
        from dst.board import build
        from dst.engines.e1_diff import _first_error, transpile
        import Reduino.transpile.emitter as emitter

        table = getattr(emitter, "_BUZZER_MELODIES", {})
        for name, (tempo, seq) in FROZEN_MELODIES.items():
            got = table.get(name)
            if not got or float(got["tempo"]) != tempo or [tuple(map(float, x)) for x in got["sequence"]] != [tuple(map(float, x)) for x in seq]:
                return Outcome("violation", cls="score-table", message=f"melody {name!r} differs from the documented score")
        try:
            cpp = transpile(case["script"])
        except (ValueError, SyntaxError) as exc:
            return Outcome("rejected", message=str(exc)[:200], probes={"rejected": 1})
        binary = None
        # the loop body reads the potentiometer again on every pass, in the same order
        setup_reads = case["ain"]
        world = {"passes": case["passes"], "ain": {"14": setup_reads or [0]}}
        loop_calls = [c for c in case["calls"] if c["in_loop"]]
        try:
            try:
                binary = build.build_sketch(cpp)
            except build.BuildError as exc:
                return Outcome("violation", cls="build", message="firmware does not build: " + _first_error(exc.stderr))
            # potentiometer-derived arguments are only valid on the first evaluation: run one pass at most when they exist in the loop
            run = build.run_sketch(binary, world)
        finally:
            build.discard(binary)
        tr = parse_board_log(run.log, run.exit_code, run.stderr)
        if tr.status != "ok":
            return Outcome("violation", cls=f"status/{tr.status}", message=tr.detail[:300])
        msg = self.judge(case, tr)
        if msg:
            return Outcome("violation", cls=msg[0], message=msg[1][:400])
        seq = [(k, r) for _t, _p, k, r in tr.raw if k in ("TONE", "NOTONE", "DLY")]
        return Outcome("ok", digest=sha(repr(seq))[:16], nontrivial=any(k == "TONE" for k, _ in seq), sim_ms=tr.end_ms,
                       probes={f"m_{c['method']}": 1 for c in case["calls"]})

    # ------------------------------------------------------------------
    @staticmethod
    def judge(case: dict, tr) -> Optional[Tuple[str, str]]:
        pin = case["pin"]
        # segment the log by markers
        segments: List[Tuple[str, List[Tuple[str, str]]]] = []
        cur: List[Tuple[str, str]] = []
        for _t, _p, kind, rest in tr.raw:
            if kind == "SER":
                text = rest.partition(" ")[2]
                if text.startswith("M") and text[1:].isdigit():
                    segments.append((text, cur))
                    cur = []
                    continue
                cur.append(("SER", text))
            elif kind in ("TONE", "NOTONE"):
                p = int(rest.split()[0])
                if p != pin:
                    return ("wrong-pin", f"{kind} on pin {p}, the buzzer is on pin {pin}")
                cur.append((kind, rest))
            elif kind == "DLY":
                cur.append((kind, rest))
        calls = case["calls"]
        n_setup = sum(1 for c in calls if not c["in_loop"])
        n_loop = len(calls) - n_setup
        expected_segments = n_setup + n_loop * case["passes"]
        if len(segments) != expected_segments:
            return ("markers", f"{len(segments)} call markers in the log, expected {expected_segments}")
        sounding = False
        current = 0.0
        last = float(case["default"])
        pot_used_in_loop = any("pot.read()" in l and l.startswith("    ") for l in case["script"].splitlines())
        for si, (marker, evs) in enumerate(segments):
            idx = si if si < n_setup else n_setup + (si - n_setup) % max(1, n_loop)
            call = calls[idx]
            second_pass = si >= n_setup + n_loop
            _ = (second_pass, pot_used_in_loop)  # the world repeats the loop's ADC readings on every pass
            tones = [(k, r) for k, r in evs if k in ("TONE", "NOTONE")]
            delays = [int(r) for k, r in evs if k == "DLY"]
            sers = [r for k, r in evs if k == "SER"]
            # (a requested frequency <= 0 never starts a tone: checked per call below, where the request is known;
            #  a positive request below 0.5 Hz legitimately rounds to tone(pin, 0))
            m = call["method"]
            timed = m in ("beep", "sweep", "melody") or (m == "play_tone" and call.get("duration_ms") is not None)
            # every sound is bounded: no call may block longer than a generous bound on what it was asked for
            if sum(delays) > 600000:
                return ("unbounded-delay", f"{marker}: {m}{_args(call)} blocked for {sum(delays)} ms")
            # what the pin does at the end of the call
            end_sounding = sounding
            end_freq = None
            for k, r in tones:
                if k == "TONE":
                    end_sounding = True
                    end_freq = int(r.split()[1])
                else:
                    end_sounding = False
            if timed and end_sounding:
                return ("left-sounding", f"{marker}: {m}{_args(call)} returned with the pin still sounding")
            if m == "stop" and end_sounding:
                return ("left-sounding", f"{marker}: stop() left the pin sounding")
            if len(sers) != 3:
                return ("getters", f"{marker}: expected three getter lines, got {sers}")
            state_txt, cur_txt, last_txt = sers
            if (state_txt == "1") != end_sounding:
                return ("get-state", f"{marker}: get_state() = {state_txt} after {m}{_args(call)} but the pin is {'sounding' if end_sounding else 'silent'}")
            if not call.get("generic_only"):
                err = E5Buzzer._specific(call, tones, delays, marker, sounding, last)
                if err:
                    return err
            # model update
            sounded = [int(r.split()[1]) for k, r in tones if k == "TONE"]
            if sounded:
                last_sounded = sounded[-1]
            sounding = end_sounding
            try:
                got_cur, got_last = float(cur_txt), float(last_txt)
            except ValueError:
                return ("getters", f"{marker}: getter lines {sers}")
            if sounding:
                if abs(got_cur - end_freq) > 0.51:
                    return ("get-frequency", f"{marker}: get_frequency() = {got_cur} while tone {end_freq} is sounding")
            elif got_cur != 0:
                return ("get-frequency", f"{marker}: get_frequency() = {got_cur} while the pin is silent")
            if sounded:
                if abs(got_last - last_sounded) > 0.51:
                    return ("get-last-frequency", f"{marker}: get_last_frequency() = {got_last}, last tone sounded was {last_sounded}")
                last = got_last
            elif abs(got_last - last) > 0.011:
                return ("get-last-frequency", f"{marker}: get_last_frequency() changed to {got_last} without a tone (was {last})")
        return None

    @staticmethod
    def _specific(call, tones, delays, marker, sounding_before, last) -> Optional[Tuple[str, str]]:
        m = call["method"]
        tone_freqs = [int(r.split()[1]) for k, r in tones if k == "TONE"]
        if m == "play_tone":
            f = call["frequency"]
            d = call["duration_ms"]
            if f <= 0:
                if tone_freqs:
                    return ("play-tone", f"{marker}: play_tone({f}) started a tone")
            else:
                if tone_freqs != [int(f32(f) + 0.5)]:
                    return ("play-tone", f"{marker}: play_tone({f}) sounded {tone_freqs}")
            if d is not None:
                want = [int(d)] if d >= 1 else []
                if d >= 0 and delays != want:
                    return ("play-tone-duration", f"{marker}: play_tone(.., {d}) delayed {delays}, expected {want}")
            elif delays:
                return ("play-tone-duration", f"{marker}: play_tone without duration delayed {delays}")
        elif m == "beep":
            f = call["frequency"] if call["frequency"] is not None else last
            n, on, off = call["times"], call["on_ms"], call["off_ms"]
            if n <= 0:
                return None  # only the generic rules (silent afterwards) apply
            if f > 0:
                if tone_freqs != [int(f32(f) + 0.5)] * n:
                    return ("beep-count", f"{marker}: beep(times={n}, frequency={f}) sounded {tone_freqs}")
                want = []
                for i in range(n):
                    if on >= 1:
                        want.append(int(on))
                    if i + 1 < n and off >= 1:
                        want.append(int(off))
                if delays != want:
                    return ("beep-gaps", f"{marker}: beep(on_ms={on}, off_ms={off}, times={n}) delays {delays}, expected {want}")
                # shape: every tone is followed by a noTone before the next tone
                seq = [k for k, _r in tones]
                for i, k in enumerate(seq):
                    if k == "TONE" and (i + 1 >= len(seq) or seq[i + 1] != "NOTONE"):
                        return ("beep-shape", f"{marker}: a beep is not terminated by noTone: {seq}")
            elif tone_freqs:
                return ("beep-count", f"{marker}: beep with frequency {f} sounded {tone_freqs}")
        elif m == "sweep":
            start, end, dur, steps = call["start_hz"], call["end_hz"], call["duration_ms"], call["steps"]
            if sum(delays) > dur + 1e-9:
                return ("sweep-duration", f"{marker}: sweep delays {sum(delays)} ms exceed duration_ms={dur}")
            if steps >= 1:
                # per-step reference: linear interpolation in float32, negative values clamp to 0 (= no tone)
                want = []
                s0, e0 = max(0.0, f32(start)), max(0.0, f32(end))
                for i in range(steps):
                    prog = 1.0 if steps == 1 else f32(f32(i) / f32(f32(steps) - 1.0))
                    fr = f32(s0 + f32(f32(e0 - s0) * prog))
                    if fr > 0:
                        want.append(int(fr + 0.5))
                if len(tone_freqs) != len(want) or any(abs(a - b) > 1 for a, b in zip(tone_freqs, want)):
                    return ("sweep-tones", f"{marker}: sweep({start}, {end}, steps={steps}) sounded {tone_freqs}, expected {want}")
            if steps >= 1 and start > 0 and end > 0:
                if len(tone_freqs) != steps:
                    return ("sweep-steps", f"{marker}: sweep(steps={steps}) played {len(tone_freqs)} tones")
                if tone_freqs[-1] != int(f32(end) + 0.5):
                    return ("sweep-end", f"{marker}: sweep ended on {tone_freqs[-1]}, expected {int(f32(end) + 0.5)}")
                if steps > 1 and tone_freqs[0] != int(f32(start) + 0.5):
                    return ("sweep-start", f"{marker}: sweep started on {tone_freqs[0]}, expected {int(f32(start) + 0.5)}")
                up = end >= start
                for a, b in zip(tone_freqs, tone_freqs[1:]):
                    if (b < a) if up else (b > a):
                        return ("sweep-monotone", f"{marker}: sweep {start}->{end} is not monotone: {tone_freqs}")
        elif m == "melody":
            tempo0, seq = FROZEN_MELODIES[call["name"]]
            tempo = call["tempo"]
            if tempo is None or tempo <= 0:
                tempo = tempo0
            want_tones = [int(f32(f) + 0.5) for f, _b in seq if f > 0]
            if tone_freqs != want_tones:
                return ("melody-notes", f"{marker}: melody {call['name']!r} played {tone_freqs}, the score is {want_tones}")
            want_d = [b * 60000.0 / float(tempo) for _f, b in seq]
            want_d = [d for d in want_d if d >= 1.0]
            if len(delays) != len(want_d) or any(abs(g - w) > 1.0 or g > w + 1e-3 for g, w in zip(delays, want_d)):
                return ("melody-durations", f"{marker}: melody {call['name']!r} tempo {tempo}: delays {delays}, expected about {[round(x, 2) for x in want_d]}")
        return None

    def shrink_candidates(self, case: dict) -> Iterable[dict]:
        """Keep a prefix of the call history (the script is cut right after that call's marker)."""

        n = len(case["calls"])
        lines = case["script"].splitlines()
        for keep in sorted({1, n // 2, n - 1} - {0, n}):
            marker = f'mon.write("M{keep - 1}")'
            idx = next((i for i, l in enumerate(lines) if l.strip() == marker), None)
            if idx is None:
                continue
            c = copy.deepcopy(case)
            c["script"] = "\n".join(lines[: idx + 1]) + "\n"
            c["calls"] = c["calls"][:keep]
            if not any(call["in_loop"] for call in c["calls"]):
                c["passes"] = 0
            yield c
        if case["passes"] > 1:
            c = copy.deepcopy(case)
            c["passes"] = 1
            yield c

    def sample_view(self, case: dict):
        return {"script": case["script"][len(HEAD):], "passes": case["passes"]}


def _args(call) -> str:
    return "(" + ", ".join(f"{k}={v}" for k, v in call.items() if k not in ("method", "in_loop", "generic_only")) + ")"
