"""E6 - LCD: cell matrix of the mock HD44780 on the simulated board vs the host LCD model (C17),
and animation tick schedules on both sides (C18)."""

from __future__ import annotations

import copy
import re
from typing import Dict, Iterable, List, Optional, Tuple

from dst.core.common import setup_repo_import, sha
from dst.core.runner import Engine, Outcome
from dst.core.trace import parse_board_log

setup_repo_import()

HEAD = (
    'from Reduino import target\ntarget("COM3")\nfrom Reduino.Communication import SerialMonitor\n'
    "from Reduino.Utils import sleep\nfrom Reduino.Displays import LCD\nfrom Reduino.Sensors import Potentiometer\n"
    'mon = SerialMonitor(9600, "COM3")\n'
)
TEXT_ALPHABET = "abcdefghijklmnopqrstuvwxyzABCDEFGHIJKLMNOPQRSTUVWXYZ0123456789 !#$%&()*+,-./:;<=>?[]^_{|}~"


def board_syncs(log: str):
    """[(marker, {lcd_id: {"rows": [...], "display": b, "backlight": b}})] plus the raw event list."""

    syncs = []
    current = None
    events = []
    for line in log.splitlines():
        parts = line.split(" ", 2)
        if len(parts) < 2:
            continue
        kind = parts[1]
        rest = parts[2] if len(parts) > 2 else ""
        events.append((int(parts[0]) if parts[0].isdigit() else 0, kind, rest))
        if kind == "SYNC":
            current = (rest, {})
            syncs.append(current)
        elif kind == "LCD" and " DUMP sync " in " " + rest + " " and current is not None:
            f = rest.split()
            lcd_id = int(f[0])
            cols, rows = int(f[3]), int(f[4])
            disp = f[5] == "disp=1"
            bl = f[6] == "bl=1"
            cells = f[7] if len(f) > 7 else ""
            row_texts = []
            for r in cells.split("|") if rows else []:
                row_texts.append("".join(chr(int(r[i : i + 2], 16)) for i in range(0, len(r), 2)))
            while len(row_texts) < rows:
                row_texts.append("")
            current[1][lcd_id] = {"rows": row_texts, "display": disp, "backlight": bl, "cols": cols}
    return syncs, events


def _norm_host_row(row: str) -> str:
    return row.replace("█", "\xff")


def compare_lcd_script(script: str, world: dict, meta: Optional[dict] = None) -> Outcome:
    """Run ``script`` on board and host; compare LCD matrices at every sync marker."""

    from dst.board import build
    from dst.engines.e1_diff import _first_error, transpile
    from dst.host.executor import run_host

    meta = meta or {}
    try:
        cpp = transpile(script)
    except (ValueError, SyntaxError) as exc:
        return Outcome("rejected", message=f"{type(exc).__name__}: {exc}"[:200], probes={"rejected": 1})
    except Exception as exc:
        return Outcome("rejected", message=f"{type(exc).__name__}: {exc}"[:200], probes={"rejected_internal": 1})
    passes = int(world.get("passes", 0))
    h = run_host(script, world, passes)
    if h.error is not None:
        return Outcome("discard", message="host: " + h.error[:200], probes={"host_error": 1})
    binary = None
    try:
        try:
            binary = build.build_sketch(cpp)
        except build.BuildError as exc:
            return Outcome("violation", cls="build", message="firmware does not build: " + _first_error(exc.stderr))
        run = build.run_sketch(binary, world)
    finally:
        build.discard(binary)
    bt = parse_board_log(run.log, run.exit_code, run.stderr)
    if bt.status != "ok":
        return Outcome("violation", cls=f"status/{bt.status}", message=bt.detail[:300])
    syncs, events = board_syncs(run.log)
    oob = [e for e in events if e[1] == "OOB"]
    if oob:
        return Outcome("violation", cls="off-display", message=f"the firmware addressed a cell outside the display: {oob[0][2]}")
    host_syncs = [(v[0], v[1]) for _t, _p, k, v in h.trace.raw if k == "SYNC"]
    if [m for m, _ in syncs] != [m for m, _ in host_syncs]:
        return Outcome("violation", cls="sync-order", message=f"sync markers differ: board {[m for m, _ in syncs][:6]} host {[m for m, _ in host_syncs][:6]}")
    try:
        progress = derive_progress(script, passes)
    except Exception:
        progress = []
    backlight_pin = meta.get("backlight_pin")
    # last analogWrite on the backlight pin before each sync
    bl_at_sync: List[Optional[int]] = []
    last_bl = None
    for _t, kind, rest in events:
        if kind == "AW" and backlight_pin is not None and int(rest.split()[0]) == backlight_pin:
            last_bl = int(rest.split()[1])
        if kind == "SYNC":
            bl_at_sync.append(last_bl)
    for k, ((marker, bl), (_m, hl)) in enumerate(zip(syncs, host_syncs)):
        if len(bl) != len(hl):
            return Outcome("violation", cls="lcd-count", message=f"{len(bl)} displays on the board, {len(hl)} on the host")
        for i, hs in enumerate(hl):
            bs = bl.get(i)
            if bs is None:
                return Outcome("violation", cls="lcd-count", message=f"display {i} missing on the board")
            hrows = [_norm_host_row(r) for r in hs["rows"]]
            for r, (brow, hrow) in enumerate(zip(bs["rows"], hrows)):
                prog = progress[k].get(str(r)) if (i == 0 and k < len(progress)) else None
                if prog and prog.get("dirty"):
                    continue
                if prog:
                    msg = _compare_progress(brow, hrow, prog)
                    if msg:
                        return Outcome("violation", cls="progress", message=f"at {marker}: {msg}")
                    continue
                if brow != hrow:
                    return Outcome("violation", cls="cells", message=f"at {marker} display {i} row {r}: board {brow!r} host {hrow!r}")
            if len(bs["rows"]) != len(hrows):
                return Outcome("violation", cls="cells", message=f"at {marker}: board has {len(bs['rows'])} rows, host {len(hrows)}")
            if meta.get("i2c", {}).get(str(i)) and bs["backlight"] != hs["backlight"]:
                return Outcome("violation", cls="backlight", message=f"at {marker}: I2C backlight board={bs['backlight']} host={hs['backlight']}")
            if bs["display"] != hs["display"]:
                return Outcome("violation", cls="display-flag", message=f"at {marker}: display on board={bs['display']} host={hs['display']}")
            if backlight_pin is not None and i == meta.get("backlight_lcd", 0):
                want = hs["brightness"] if hs["backlight"] else 0
                got = bl_at_sync[k]
                if got is not None and got != want:
                    return Outcome("violation", cls="backlight", message=f"at {marker}: backlight pin duty {got}, host model says {want}")
    # glyph uploads
    host_final = host_syncs[-1][1] if host_syncs else []
    uploads: Dict[Tuple[int, int], List[int]] = {}
    for _t, kind, rest in events:
        if kind == "LCD" and " GLYPH " in " " + rest:
            f = rest.split()
            uploads[(int(f[0]), int(f[2]))] = [int(x) for x in f[3:11]]
    for i, hs in enumerate(host_final):
        for slot, rows8 in hs["glyphs"].items():
            got = uploads.get((i, slot))
            if got != rows8:
                return Outcome("violation", cls="glyph", message=f"display {i} slot {slot}: uploaded {got}, host stores {rows8}")
    digest = sha(repr([(m, sorted((i, tuple(s["rows"])) for i, s in b.items())) for m, b in syncs]))[:16]
    return Outcome("ok", digest=digest, nontrivial=len(syncs) > 0, sim_ms=bt.end_ms, probes={"syncs": len(syncs)})


def derive_progress(script: str, passes: int) -> List[Dict[str, dict]]:
    """For every sync marker in execution order: which rows of display `lcd` currently hold a progress bar."""

    import ast

    tree = ast.parse(script)
    cols = rows = None
    setup_ops, loop_ops = [], []

    def lit(node, default=None):
        try:
            return ast.literal_eval(node)
        except Exception:
            return default

    def scan(stmts, out):
        nonlocal cols, rows
        for st in stmts:
            if isinstance(st, ast.Assign) and isinstance(st.value, ast.Call) and getattr(st.value.func, "id", "") == "LCD" and st.targets[0].id == "lcd":
                kw = {k.arg: lit(k.value) for k in st.value.keywords}
                cols, rows = kw.get("cols", 16), kw.get("rows", 2)
            elif isinstance(st, ast.While):
                scan(st.body, loop_ops)
            elif isinstance(st, ast.Expr) and isinstance(st.value, ast.Call) and isinstance(st.value.func, ast.Attribute):
                call = st.value
                owner = getattr(call.func.value, "id", "")
                name = call.func.attr
                args = [lit(a) for a in call.args]
                kw = {k.arg: lit(k.value) for k in call.keywords}
                if owner == "mon" and name == "write" and isinstance(args[0], str) and args[0].startswith("@"):
                    out.append(("sync", args[0]))
                elif owner == "lcd":
                    out.append((name, args, kw))

    scan(tree.body, setup_ops)
    active: Dict[str, dict] = {}
    result: List[Dict[str, dict]] = []
    fills = {"block": "\u2588", "hash": "#", "pipe": "|", "dot": "."}

    def run(ops):
        for op in ops:
            if op[0] == "sync":
                result.append(copy.deepcopy(active))
                continue
            name, args, kw = op
            if name == "progress":
                row = args[0]
                value = args[1]
                maxv = args[2] if len(args) > 2 else kw.get("max_value", 100)
                width = kw.get("width")
                eff = cols if width is None else (max(1, min(cols, int(width))))
                label = kw.get("label", args[3] if len(args) > 3 else None)
                active[str(row)] = {"fill": fills[str(kw.get("style", "block")).lower()], "width": eff, "value": value, "max": maxv, "offset": (len(label) + 1) if label else 0}
            elif name in ("write", "line"):
                row = str(args[1] if name == "write" else args[0])
                if kw.get("clear_row", True):
                    active.pop(row, None)
                elif row in active:
                    active[row]["dirty"] = True  # partially overwritten bar: cells are not comparable any more
            elif name == "animate":
                active.pop(str(args[1]), None)
            elif name == "message":
                top = args[0] if args else kw.get("top")
                bottom = args[1] if len(args) > 1 else kw.get("bottom")
                for row, text in (("0", top), ("1", bottom)):
                    if text is None:
                        continue
                    if kw.get("clear_rows", True):
                        active.pop(row, None)
                    elif row in active:
                        active[row]["dirty"] = True
            elif name == "clear":
                active.clear()

    run(setup_ops)
    for _ in range(passes):
        run(loop_ops)
    return result


def _compare_progress(brow: str, hrow: str, prog: dict) -> str:
    fill_b = "\xff" if prog["fill"] == "█" else prog["fill"]
    offset = prog["offset"]
    width = prog["width"]
    b_bar, h_bar = brow[offset : offset + width], hrow[offset : offset + width]
    if brow[:offset] != hrow[:offset] or brow[offset + width :] != hrow[offset + width :]:
        return f"text around the bar differs: board {brow!r} host {hrow!r}"
    def filled(bar):
        n = 0
        for ch in bar:
            if ch == fill_b:
                n += 1
            else:
                break
        if any(ch not in (fill_b, " ") for ch in bar) or fill_b in bar[n:]:
            return None
        return n
    fb, fh = filled(b_bar), filled(h_bar)
    if fb is None or fh is None:
        return f"bar is not a prefix of fill characters: board {b_bar!r} host {h_bar!r}"
    visible = len(b_bar)
    if abs(fb - fh) > 1:
        return f"filled length board {fb} host {fh} differ by more than one cell (value {prog['value']}/{prog['max']}, width {width})"
    if prog["max"] > 0 and (prog["value"] * width) % prog["max"] == 0 and fb != fh and 0 <= prog["value"] <= prog["max"]:
        return f"filled length board {fb} host {fh} although value*width is a multiple of max_value"
    if prog["value"] <= 0 and (fb != 0 or fh != 0):
        return f"value {prog['value']} <= 0 but filled board {fb} host {fh}"
    if prog["max"] > 0 and prog["value"] >= prog["max"] and (fb != min(width, visible) or fh != min(width, visible)):
        return f"value >= max but filled board {fb} host {fh} of {min(width, visible)}"
    return ""


# ====================================================================== C17


class LcdGen:
    def __init__(self, rng, avoid, tier: str) -> None:
        self.rng = rng
        self.avoid = set(avoid)
        self.tier = tier
        self.features = set()

    def text(self, cols: int) -> str:
        r = self.rng
        n = r.choice([0, 1, max(0, cols - 1), cols, cols + 1, cols + 5, r.randint(0, 45), r.randint(0, max(1, cols))])
        return "".join(r.choice(TEXT_ALPHABET) for _ in range(n))

    def generate(self) -> dict:
        r = self.rng
        cols = r.choice([1, 2, 8, 16, 16, 20, 20, 40, r.randint(1, 40)])
        rows = r.choice([1, 2, 2, 4, r.randint(1, 4)])
        i2c = r.random() < 0.4
        backlight_pin = None
        if i2c:
            decl = f"lcd = LCD(i2c_addr=0x27, cols={cols}, rows={rows})"
        else:
            extra = ""
            if r.random() < 0.6:
                backlight_pin = 9
                extra += ", backlight_pin=9"
            if r.random() < 0.2:
                extra += ", rw=10"
            decl = f"lcd = LCD(rs=12, en=11, d4=5, d5=4, d6=3, d7=2, cols={cols}, rows={rows}{extra})"
        lines = [decl]
        meta = {"progress": {}, "backlight_pin": backlight_pin, "backlight_lcd": 0, "i2c": {"0": i2c}, "cols": cols, "rows": rows}
        sync = 0
        active: Dict[str, dict] = {}

        def q(s: str) -> str:
            return '"' + s.replace("\\", "\\\\").replace('"', '\\"') + '"'

        n_ops = r.randint(1, 15 if self.tier == "quick" else 30)
        where_loop = r.random() < 0.3
        body: List[str] = []
        for _ in range(n_ops):
            kind = r.choice(["write", "write", "line", "line", "message", "clear", "progress", "progress", "display", "backlight", "brightness", "glyph", "sweep"])
            row = r.randint(0, rows - 1)
            rows_touched = [row]
            stmt: List[str] = []
            prog = None
            if kind == "write":
                col = r.choice([0, 0, cols - 1, r.randint(0, cols - 1)])
                kw = []
                if r.random() < 0.5:
                    kw.append(f"clear_row={r.choice(['True', 'False'])}")
                if r.random() < 0.6:
                    kw.append(f'align="{r.choice(["left", "center", "right", "CENTER", "Right"])}"')
                r.shuffle(kw)
                stmt = [f"lcd.write({col}, {row}, {q(self.text(cols))}{''.join(', ' + k for k in kw)})"]
            elif kind == "line":
                kw = []
                if r.random() < 0.6:
                    kw.append(f'align="{r.choice(["left", "center", "right"])}"')
                if r.random() < 0.5:
                    kw.append(f"clear_row={r.choice(['True', 'False'])}")
                r.shuffle(kw)
                stmt = [f"lcd.line({row}, {q(self.text(cols))}{''.join(', ' + k for k in kw)})"]
            elif kind == "message":
                if rows < 2 and "message_one_row" in self.avoid:
                    continue
                if rows < 2:
                    self.features.add("message_one_row")
                top = q(self.text(cols)) if r.random() < 0.8 else "None"
                bottom = q(self.text(cols)) if r.random() < 0.8 else "None"
                kw = []
                if r.random() < 0.4:
                    kw.append(f'top_align="{r.choice(["left", "center", "right"])}"')
                if r.random() < 0.4:
                    kw.append(f'bottom_align="{r.choice(["left", "center", "right"])}"')
                if r.random() < 0.4:
                    kw.append(f"clear_rows={r.choice(['True', 'False'])}")
                form = r.choice(["pos", "kw"])
                if form == "pos":
                    stmt = [f"lcd.message({top}, {bottom}{''.join(', ' + k for k in kw)})"]
                else:
                    stmt = [f"lcd.message(top={top}, bottom={bottom}{''.join(', ' + k for k in kw)})"]
                rows_touched = [0, 1]
            elif kind == "clear":
                stmt = ["lcd.clear()"]
                rows_touched = list(range(rows))
            elif kind in ("progress", "sweep"):
                maxv = r.choice([100, 100, 10, 7, 255, 1])
                if "progress_nonpositive_max" not in self.avoid and r.random() < 0.1:
                    maxv = r.choice([0, -5])
                    self.features.add("progress_nonpositive_max")
                width = r.choice([None, None, cols, max(1, cols // 2), r.randint(1, cols), cols + 3])
                if "progress_width_zero" not in self.avoid and r.random() < 0.08:
                    width = r.choice([0, -2])
                    self.features.add("progress_width_zero")
                style = r.choice(["block", "hash", "pipe", "dot"])
                label = r.choice([None, None, "L", "Load", "abcdefgh"])
                fill = {"block": "█", "hash": "#", "pipe": "|", "dot": "."}[style]
                eff_width = cols if width is None else max(1, min(cols, width)) if width > 0 else (1 if True else cols)
                values = [r.choice([0, 1, maxv // 2, maxv - 1, maxv, maxv + 5, -3, r.randint(0, max(1, maxv))])]
                if kind == "sweep":
                    values = sorted(r.randint(-2, max(2, maxv) + 3) for _ in range(r.randint(2, 5)))
                for v in values:
                    kw = []
                    if width is not None:
                        kw.append(f"width={width}")
                    if style != "block" or r.random() < 0.3:
                        kw.append(f'style="{style}"')
                    if label is not None:
                        kw.append(f'label="{label}"')
                    r.shuffle(kw)
                    maxtxt = f", {maxv}" if r.random() < 0.5 else f", max_value={maxv}"
                    sync += 1
                    marker = f"@{sync}"
                    offset = (len(label) + 1) if label else 0
                    active[str(row)] = {"lcd": 0, "row": row, "fill": fill, "width": eff_width, "value": v, "max": maxv, "offset": offset}
                    meta["progress"][marker] = copy.deepcopy(active)
                    body.append(f"lcd.progress({row}, {v}{maxtxt}{''.join(', ' + k for k in kw)})")
                    body.append(f'mon.write("{marker}")')
                continue
            elif kind == "display":
                stmt = [f"lcd.display({r.choice(['True', 'False', '1', '0'])})"]
                rows_touched = []
            elif kind == "backlight":
                stmt = [f"lcd.backlight({r.choice(['True', 'False'])})"]
                rows_touched = []
            elif kind == "brightness":
                if i2c or backlight_pin is None:
                    continue
                stmt = [f"lcd.brightness({r.choice([0, 1, 128, 254, 255, r.randint(0, 255)])})"]
                rows_touched = []
            elif kind == "glyph":
                slot = r.randint(0, 7)
                bitmap = [r.choice([0, 1, 31, 32, 255, r.randint(0, 31)]) for _ in range(8)]
                stmt = [f"lcd.glyph({slot}, {bitmap})"]
                rows_touched = []
            sync += 1
            for rt in rows_touched:
                active.pop(str(rt), None)
            meta["progress"][f"@{sync}"] = copy.deepcopy(active)
            body.extend(stmt)
            body.append(f'mon.write("@{sync}")')
        passes = 0
        if where_loop and body:
            cut = r.randint(0, len(body) // 2) * 2
            lines += body[:cut]
            lines.append("while True:")
            lines += ["    " + b for b in (body[cut:] or ["sleep(1)"])]
            passes = r.choice([1, 2, 3])
        else:
            lines += body
        return {"script": HEAD + "\n".join(lines) + "\n", "world": {"passes": passes}, "meta": meta, "features": sorted(self.features)}


class E6Text(Engine):
    name = "e6-lcd-text"
    property_id = "C17"
    components_real = ["transpile.parser/emitter (LCD helper templates compiled natively)", "Reduino.Displays.LCD under CPython"]
    components_stub = ["LiquidCrystal / LiquidCrystal_I2C (mock HD44780 cell matrix with cursor, CGRAM mode, out-of-range detection)"]
    assumptions = ["ASCII text only (UTF-8 bytes vs code points is a property of the display)", "rows and columns in range, as in the statement"]
    rule = (
        "seeded geometry (cols 1-40, rows 1-4, parallel or I2C, optional backlight pin / RW) x history of 1-30 "
        "write/line/message/clear/progress/display/backlight/brightness/glyph ops with texts of every length class, all "
        "alignments and clear flags; a sync marker after every op dumps the mock's cell matrix and snapshots the host "
        "buffer; cell equality (progress rows: filled length within one cell, exact when value*width % max == 0, "
        "saturating), no off-display access, backlight duty, glyph bytes; distinct = digest of the matrices at all syncs"
    )

    def setup(self) -> None:
        from dst.board import build
        from dst.host import executor

        build.ensure_runtime("plain")
        executor.install()

    def generate(self, rng, tier: str, avoid) -> dict:
        return LcdGen(rng, avoid, tier).generate()

    def execute(self, case: dict) -> Outcome:
        return compare_lcd_script(case["script"], case["world"], case.get("meta"))

    def shrink_candidates(self, case: dict) -> Iterable[dict]:
        lines = case["script"].splitlines()
        head = len(HEAD.splitlines()) + 1
        i = len(lines) - 1
        while i >= head:
            if lines[i].strip().startswith('mon.write("@') and i - 1 >= head:
                c = copy.deepcopy(case)
                c["script"] = "\n".join(lines[: i - 1] + lines[i + 1 :]) + "\n"
                try:
                    compile(c["script"], "<s>", "exec")
                    yield c
                except SyntaxError:
                    pass
                i -= 2
            else:
                i -= 1

    def sample_view(self, case: dict):
        return {"script": case["script"][len(HEAD):], "world": case["world"]}
