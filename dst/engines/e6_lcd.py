"""E6 - LCD: cell matrix of the mock HD44780 on the simulated board vs the host LCD model (C17),
and animation tick schedules on both sides (C18)."""

from __future__ import annotations

import copy
import re
from typing import Dict, Iterable, List, Optional, Tuple

from dst.core.common import setup_repo_import, sha
from dst.core.runner import Engine, Outcome
from dst.core.trace import parse_board_log

setup_repo_import()

HEAD = (
    'from Reduino import target\ntarget("COM3")\nfrom Reduino.Communication import SerialMonitor\n'
    "from Reduino.Utils import sleep\nfrom Reduino.Displays import LCD\nfrom Reduino.Sensors import Potentiometer\n"
    'mon = SerialMonitor(9600, "COM3")\n'
)
POT_READING = 600  # the only analog input of the LCD scripts reads this on every sample
TEXT_ALPHABET = "abcdefghijklmnopqrstuvwxyzABCDEFGHIJKLMNOPQRSTUVWXYZ0123456789 !#$%&()*+,-./:;<=>?[]^_{|}~"


def board_syncs(log: str):
    """[(marker, {lcd_id: {"rows": [...], "display": b, "backlight": b}})] plus the raw event list."""

    syncs = []
    current = None
    events = []
    for line in log.splitlines():
        parts = line.split(" ", 2)
        if len(parts) < 2:
            continue
        kind = parts[1]
        rest = parts[2] if len(parts) > 2 else ""
        events.append((int(parts[0]) if parts[0].isdigit() else 0, kind, rest))
        if kind == "SYNC":
            current = (rest, {})
            syncs.append(current)
        elif kind == "LCD" and " DUMP sync " in " " + rest + " " and current is not None:
            f = rest.split()
            lcd_id = int(f[0])
            cols, rows = int(f[3]), int(f[4])
            disp = f[5] == "disp=1"
            bl = f[6] == "bl=1"
            cells = f[7] if len(f) > 7 else ""
            row_texts = []
            for r in cells.split("|") if rows else []:
                row_texts.append("".join(chr(int(r[i : i + 2], 16)) for i in range(0, len(r), 2)))
            while len(row_texts) < rows:
                row_texts.append("")
            current[1][lcd_id] = {"rows": row_texts, "display": disp, "backlight": bl, "cols": cols}
    return syncs, events


def _norm_host_row(row: str) -> str:
    return row.replace("█", "\xff")


def compare_lcd_script(script: str, world: dict, meta: Optional[dict] = None) -> Outcome:
    """Run ``script`` on board and host; compare LCD matrices at every sync marker."""

    from dst.board import build
    from dst.engines.e1_diff import _first_error, transpile
    from dst.host.executor import run_host

    meta = meta or {}
    try:
        cpp = transpile(script)
    except (ValueError, SyntaxError) as exc:
        return Outcome("rejected", message=f"{type(exc).__name__}: {exc}"[:200], probes={"rejected": 1})
    except Exception as exc:
        return Outcome("rejected", message=f"{type(exc).__name__}: {exc}"[:200], probes={"rejected_internal": 1})
    passes = int(world.get("passes", 0))
    h = run_host(script, world, passes)
    if h.error is not None:
        return Outcome("discard", message="host: " + h.error[:200], probes={"host_error": 1})
    binary = None
    try:
        try:
            binary = build.build_sketch(cpp)
        except build.BuildError as exc:
            return Outcome("violation", cls="build", message="firmware does not build: " + _first_error(exc.stderr))
        run = build.run_sketch(binary, world)
    finally:
        build.discard(binary)
    bt = parse_board_log(run.log, run.exit_code, run.stderr)
    if bt.status != "ok":
        return Outcome("violation", cls=f"status/{bt.status}", message=bt.detail[:300])
    syncs, events = board_syncs(run.log)
    oob = [e for e in events if e[1] == "OOB"]
    if oob:
        return Outcome("violation", cls="off-display", message=f"the firmware addressed a cell outside the display: {oob[0][2]}")
    host_syncs = [(v[0], v[1]) for _t, _p, k, v in h.trace.raw if k == "SYNC"]
    if [m for m, _ in syncs] != [m for m, _ in host_syncs]:
        return Outcome("violation", cls="sync-order", message=f"sync markers differ: board {[m for m, _ in syncs][:6]} host {[m for m, _ in host_syncs][:6]}")
    try:
        progress = derive_progress(script, passes)
    except Exception:
        progress = []
    backlight_pin = meta.get("backlight_pin")
    # last analogWrite on the backlight pin before each sync
    bl_at_sync: List[Optional[int]] = []
    last_bl = None
    for _t, kind, rest in events:
        if kind == "AW" and backlight_pin is not None and int(rest.split()[0]) == backlight_pin:
            last_bl = int(rest.split()[1])
        if kind == "SYNC":
            bl_at_sync.append(last_bl)
    for k, ((marker, bl), (_m, hl)) in enumerate(zip(syncs, host_syncs)):
        if len(bl) != len(hl):
            return Outcome("violation", cls="lcd-count", message=f"{len(bl)} displays on the board, {len(hl)} on the host")
        for i, hs in enumerate(hl):
            bs = bl.get(i)
            if bs is None:
                return Outcome("violation", cls="lcd-count", message=f"display {i} missing on the board")
            hrows = [_norm_host_row(r) for r in hs["rows"]]
            for r, (brow, hrow) in enumerate(zip(bs["rows"], hrows)):
                prog = progress[k].get(str(r)) if (i == 0 and k < len(progress)) else None
                if prog and prog.get("dirty"):
                    continue
                if prog:
                    msg = _compare_progress(brow, hrow, prog)
                    if msg:
                        return Outcome("violation", cls="progress", message=f"at {marker}: {msg}")
                    continue
                if brow != hrow:
                    return Outcome("violation", cls="cells", message=f"at {marker} display {i} row {r}: board {brow!r} host {hrow!r}")
            if len(bs["rows"]) != len(hrows):
                return Outcome("violation", cls="cells", message=f"at {marker}: board has {len(bs['rows'])} rows, host {len(hrows)}")
            if meta.get("i2c", {}).get(str(i)) and bs["backlight"] != hs["backlight"]:
                return Outcome("violation", cls="backlight", message=f"at {marker}: I2C backlight board={bs['backlight']} host={hs['backlight']}")
            if bs["display"] != hs["display"]:
                return Outcome("violation", cls="display-flag", message=f"at {marker}: display on board={bs['display']} host={hs['display']}")
            if backlight_pin is not None and i == meta.get("backlight_lcd", 0):
                want = hs["brightness"] if hs["backlight"] else 0
                got = bl_at_sync[k]
                if got is not None and got != want:
                    return Outcome("violation", cls="backlight", message=f"at {marker}: backlight pin duty {got}, host model says {want}")
    # glyph uploads
    host_final = host_syncs[-1][1] if host_syncs else []
    uploads: Dict[Tuple[int, int], List[int]] = {}
    for _t, kind, rest in events:
        if kind == "LCD" and " GLYPH " in " " + rest:
            f = rest.split()
            uploads[(int(f[0]), int(f[2]))] = [int(x) for x in f[3:11]]
    for i, hs in enumerate(host_final):
        for slot, rows8 in hs["glyphs"].items():
            got = uploads.get((i, slot))
            if got != rows8:
                return Outcome("violation", cls="glyph", message=f"display {i} slot {slot}: uploaded {got}, host stores {rows8}")
    digest = sha(repr([(m, sorted((i, tuple(s["rows"])) for i, s in b.items())) for m, b in syncs]))[:16]
    return Outcome("ok", digest=digest, nontrivial=len(syncs) > 0, sim_ms=bt.end_ms, probes={"syncs": len(syncs)})


def derive_progress(script: str, passes: int) -> List[Dict[str, dict]]:
    """For every sync marker in execution order: which rows of display `lcd` currently hold a progress bar."""

    import ast

    tree = ast.parse(script)
    cols = rows = None
    setup_ops, loop_ops = [], []

    class _Pot:
        def read(self):
            return POT_READING

    names = {"pot": _Pot()}

    def lit(node, default=None):
        try:
            return ast.literal_eval(node)
        except Exception:
            pass
        try:
            # run-time arguments are arithmetic over the (constant) potentiometer reading and plain variables
            return eval(compile(ast.Expression(node), "<arg>", "eval"), {"__builtins__": {}}, names)
        except Exception:
            return default

    def scan(stmts, out):
        nonlocal cols, rows
        for st in stmts:
            if isinstance(st, ast.Assign) and isinstance(st.value, ast.Call) and getattr(st.value.func, "id", "") == "LCD" and st.targets[0].id == "lcd":
                kw = {k.arg: lit(k.value) for k in st.value.keywords}
                cols, rows = kw.get("cols", 16), kw.get("rows", 2)
            elif isinstance(st, ast.Assign) and isinstance(st.targets[0], ast.Name) and not isinstance(st.value, ast.Call):
                names[st.targets[0].id] = lit(st.value)
            elif isinstance(st, ast.While):
                scan(st.body, loop_ops)
            elif isinstance(st, ast.Expr) and isinstance(st.value, ast.Call) and isinstance(st.value.func, ast.Attribute):
                call = st.value
                owner = getattr(call.func.value, "id", "")
                name = call.func.attr
                args = [lit(a) for a in call.args]
                kw = {k.arg: lit(k.value) for k in call.keywords}
                if owner == "mon" and name == "write" and isinstance(args[0], str) and args[0].startswith("@"):
                    out.append(("sync", args[0]))
                elif owner == "lcd":
                    out.append((name, args, kw))

    scan(tree.body, setup_ops)
    active: Dict[str, dict] = {}
    result: List[Dict[str, dict]] = []
    fills = {"block": "\u2588", "hash": "#", "pipe": "|", "dot": "."}

    def run(ops):
        for op in ops:
            if op[0] == "sync":
                result.append(copy.deepcopy(active))
                continue
            name, args, kw = op
            if name == "progress":
                row = args[0]
                value = args[1]
                maxv = args[2] if len(args) > 2 else kw.get("max_value", 100)
                width = kw.get("width")
                eff = cols if width is None else (max(1, min(cols, int(width))))
                label = kw.get("label", args[3] if len(args) > 3 else None)
                active[str(row)] = {"fill": fills[str(kw.get("style", "block")).lower()], "width": eff, "value": value, "max": maxv, "offset": (len(label) + 1) if label else 0}
            elif name in ("write", "line"):
                row = str(args[1] if name == "write" else args[0])
                if kw.get("clear_row", True):
                    active.pop(row, None)
                elif row in active:
                    active[row]["dirty"] = True  # partially overwritten bar: cells are not comparable any more
            elif name == "animate":
                active.pop(str(args[1]), None)
            elif name == "message":
                top = args[0] if args else kw.get("top")
                bottom = args[1] if len(args) > 1 else kw.get("bottom")
                for row, text in (("0", top), ("1", bottom)):
                    if text is None:
                        continue
                    if kw.get("clear_rows", True):
                        active.pop(row, None)
                    elif row in active:
                        active[row]["dirty"] = True
            elif name == "clear":
                active.clear()

    run(setup_ops)
    for _ in range(passes):
        run(loop_ops)
    return result


def _compare_progress(brow: str, hrow: str, prog: dict) -> str:
    fill_b = "\xff" if prog["fill"] == "█" else prog["fill"]
    offset = prog["offset"]
    width = prog["width"]
    b_bar, h_bar = brow[offset : offset + width], hrow[offset : offset + width]
    if brow[:offset] != hrow[:offset] or brow[offset + width :] != hrow[offset + width :]:
        return f"text around the bar differs: board {brow!r} host {hrow!r}"
    def filled(bar):
        n = 0
        for ch in bar:
            if ch == fill_b:
                n += 1
            else:
                break
        if any(ch not in (fill_b, " ") for ch in bar) or fill_b in bar[n:]:
            return None
        return n
    fb, fh = filled(b_bar), filled(h_bar)
    if fb is None or fh is None:
        return f"bar is not a prefix of fill characters: board {b_bar!r} host {h_bar!r}"
    visible = len(b_bar)
    if abs(fb - fh) > 1:
        return f"filled length board {fb} host {fh} differ by more than one cell (value {prog['value']}/{prog['max']}, width {width})"
    if prog["max"] > 0 and (prog["value"] * width) % prog["max"] == 0 and fb != fh and 0 <= prog["value"] <= prog["max"]:
        return f"filled length board {fb} host {fh} although value*width is a multiple of max_value"
    if prog["value"] <= 0 and (fb != 0 or fh != 0):
        return f"value {prog['value']} <= 0 but filled board {fb} host {fh}"
    if prog["max"] > 0 and prog["value"] >= prog["max"] and (fb != min(width, visible) or fh != min(width, visible)):
        return f"value >= max but filled board {fb} host {fh} of {min(width, visible)}"
    return ""


# ====================================================================== C17


class LcdGen:
    def __init__(self, rng, avoid, tier: str) -> None:
        self.rng = rng
        self.avoid = set(avoid)
        self.tier = tier
        self.features = set()

    def text(self, cols: int) -> str:
        r = self.rng
        n = r.choice([0, 1, max(0, cols - 1), cols, cols + 1, cols + 5, r.randint(0, 45), r.randint(0, max(1, cols))])
        return "".join(r.choice(TEXT_ALPHABET) for _ in range(n))

    def generate(self) -> dict:
        r = self.rng
        cols = r.choice([1, 2, 8, 16, 16, 20, 20, 40, r.randint(1, 40)])
        rows = r.choice([1, 2, 2, 4, r.randint(1, 4)])
        i2c = r.random() < 0.4
        backlight_pin = None
        if i2c:
            decl = f"lcd = LCD(i2c_addr=0x27, cols={cols}, rows={rows})"
        else:
            extra = ""
            if r.random() < 0.6:
                backlight_pin = 9
                extra += ", backlight_pin=9"
            if r.random() < 0.2:
                extra += ", rw=10"
            decl = f"lcd = LCD(rs=12, en=11, d4=5, d5=4, d6=3, d7=2, cols={cols}, rows={rows}{extra})"
        lines = [decl]
        runtime = r.random() < 0.5
        if runtime:
            lines.append('pot = Potentiometer("A0")')
        rt_count = [0]

        def rt_arg(value, kind="int"):
            """``value`` as a literal, or computed from the potentiometer reading so that it is only known at run time."""
            if not runtime or r.random() < 0.5:
                return str(value)
            if kind == "bool":
                truth = value in ("True", "1")
                expr = r.choice([f"pot.read() > {r.choice([0, 300, 599])}", f"pot.read() == {POT_READING}"]) if truth else r.choice([f"pot.read() > {r.choice([600, 700, 1023])}", "pot.read() < 5"])
            else:
                expr = f"pot.read() - {POT_READING - int(value)}"
            if r.random() < 0.5:
                return expr
            rt_count[0] += 1
            name = f"rv{rt_count[0]}"
            pre.append(f"{name} = {expr}")
            return name

        pre: List[str] = []
        starts: List[int] = []
        meta = {"progress": {}, "backlight_pin": backlight_pin, "backlight_lcd": 0, "i2c": {"0": i2c}, "cols": cols, "rows": rows}
        sync = 0
        active: Dict[str, dict] = {}

        def q(s: str) -> str:
            return '"' + s.replace("\\", "\\\\").replace('"', '\\"') + '"'

        def text_arg() -> str:
            """Display text as a literal, through a variable, or assembled at run time (an f-string over the reading)."""
            t = self.text(cols)
            style = r.choice(["lit", "lit", "lit", "var", "fstr"])
            if style == "lit" or (style == "fstr" and not runtime):
                return q(t)
            rt_count[0] += 1
            name = f"tx{rt_count[0]}"
            if style == "var":
                pre.append(f"{name} = {q(t)}")
                return name
            cut_at = r.randint(0, len(t))
            esc = lambda x: x.replace("\\", "\\\\").replace('"', '\\"').replace("{", "{{").replace("}", "}}")  # noqa: E731
            expr = 'f"' + esc(t[:cut_at]) + "{pot.read()}" + esc(t[cut_at:]) + '"'
            if r.random() < 0.5:
                return expr
            pre.append(f"{name} = {expr}")
            return name

        n_ops = r.randint(1, 15 if self.tier == "quick" else 30)
        where_loop = r.random() < 0.3
        body: List[str] = []
        for _ in range(n_ops):
            kind = r.choice(["write", "write", "line", "line", "message", "clear", "progress", "progress", "display", "backlight", "brightness", "glyph", "sweep"])
            row = r.randint(0, rows - 1)
            rows_touched = [row]
            stmt: List[str] = []
            prog = None
            if kind == "write":
                col = r.choice([0, 0, cols - 1, r.randint(0, cols - 1)])
                kw = []
                if r.random() < 0.5:
                    kw.append(f"clear_row={r.choice(['True', 'False'])}")
                if r.random() < 0.6:
                    kw.append(f'align="{r.choice(["left", "center", "right", "CENTER", "Right"])}"')
                r.shuffle(kw)
                stmt = [f"lcd.write({col}, {row}, {text_arg()}{''.join(', ' + k for k in kw)})"]
            elif kind == "line":
                kw = []
                if r.random() < 0.6:
                    kw.append(f'align="{r.choice(["left", "center", "right"])}"')
                if r.random() < 0.5:
                    kw.append(f"clear_row={r.choice(['True', 'False'])}")
                r.shuffle(kw)
                stmt = [f"lcd.line({row}, {text_arg()}{''.join(', ' + k for k in kw)})"]
            elif kind == "message":
                if rows < 2 and "message_one_row" in self.avoid:
                    continue
                if rows < 2:
                    self.features.add("message_one_row")
                top = text_arg() if r.random() < 0.8 else "None"
                bottom = text_arg() if r.random() < 0.8 else "None"
                kw = []
                if r.random() < 0.4:
                    kw.append(f'top_align="{r.choice(["left", "center", "right"])}"')
                if r.random() < 0.4:
                    kw.append(f'bottom_align="{r.choice(["left", "center", "right"])}"')
                if r.random() < 0.4:
                    kw.append(f"clear_rows={r.choice(['True', 'False'])}")
                form = r.choice(["pos", "kw"])
                if form == "pos":
                    stmt = [f"lcd.message({top}, {bottom}{''.join(', ' + k for k in kw)})"]
                else:
                    stmt = [f"lcd.message(top={top}, bottom={bottom}{''.join(', ' + k for k in kw)})"]
                rows_touched = [0, 1]
            elif kind == "clear":
                stmt = ["lcd.clear()"]
                rows_touched = list(range(rows))
            elif kind in ("progress", "sweep"):
                maxv = r.choice([100, 100, 10, 7, 255, 1])
                if "progress_nonpositive_max" not in self.avoid and r.random() < 0.1:
                    maxv = r.choice([0, -5])
                    self.features.add("progress_nonpositive_max")
                width = r.choice([None, None, cols, max(1, cols // 2), r.randint(1, cols), cols + 3])
                if "progress_width_zero" not in self.avoid and r.random() < 0.08:
                    width = r.choice([0, -2])
                    self.features.add("progress_width_zero")
                style = r.choice(["block", "hash", "pipe", "dot"])
                label = r.choice([None, None, "L", "Load", "abcdefgh"])
                fill = {"block": "█", "hash": "#", "pipe": "|", "dot": "."}[style]
                eff_width = cols if width is None else max(1, min(cols, width)) if width > 0 else (1 if True else cols)
                values = [r.choice([0, 1, maxv // 2, maxv - 1, maxv, maxv + 5, -3, r.randint(0, max(1, maxv))])]
                if kind == "sweep":
                    values = sorted(r.randint(-2, max(2, maxv) + 3) for _ in range(r.randint(2, 5)))
                for v in values:
                    kw = []
                    if width is not None:
                        kw.append(f"width={width}")
                    if style != "block" or r.random() < 0.3:
                        kw.append(f'style="{style}"')
                    if label is not None:
                        kw.append(f'label="{label}"')
                    r.shuffle(kw)
                    maxtxt = f", {maxv}" if r.random() < 0.5 else f", max_value={maxv}"
                    sync += 1
                    marker = f"@{sync}"
                    offset = (len(label) + 1) if label else 0
                    active[str(row)] = {"lcd": 0, "row": row, "fill": fill, "width": eff_width, "value": v, "max": maxv, "offset": offset}
                    meta["progress"][marker] = copy.deepcopy(active)
                    vtxt = rt_arg(v)
                    starts.append(len(body))
                    body.extend(pre)
                    del pre[:]
                    body.append(f"lcd.progress({row}, {vtxt}{maxtxt}{''.join(', ' + k for k in kw)})")
                    body.append(f'mon.write("{marker}")')
                continue
            elif kind == "display":
                stmt = [f"lcd.display({rt_arg(r.choice(['True', 'False', '1', '0']), 'bool')})"]
                rows_touched = []
            elif kind == "backlight":
                stmt = [f"lcd.backlight({rt_arg(r.choice(['True', 'False']), 'bool')})"]
                rows_touched = []
            elif kind == "brightness":
                if i2c or backlight_pin is None:
                    continue
                stmt = [f"lcd.brightness({rt_arg(r.choice([0, 1, 128, 254, 255, r.randint(0, 255)]))})"]
                rows_touched = []
            elif kind == "glyph":
                slot = r.randint(0, 7)
                bitmap = [r.choice([0, 1, 31, 32, 255, r.randint(0, 31)]) for _ in range(8)]
                stmt = [f"lcd.glyph({slot}, {bitmap})"]
                rows_touched = []
            sync += 1
            for rt in rows_touched:
                active.pop(str(rt), None)
            meta["progress"][f"@{sync}"] = copy.deepcopy(active)
            starts.append(len(body))
            body.extend(pre)
            del pre[:]
            body.extend(stmt)
            body.append(f'mon.write("@{sync}")')
        passes = 0
        if where_loop and body:
            cut = r.choice(starts[: len(starts) // 2 + 1] + [0])
            lines += body[:cut]
            lines.append("while True:")
            lines += ["    " + b for b in (body[cut:] or ["sleep(1)"])]
            passes = r.choice([1, 2, 3])
        else:
            lines += body
        return {"script": HEAD + "\n".join(lines) + "\n", "world": {"passes": passes, "ain": {"14": [POT_READING]}}, "meta": meta, "features": sorted(self.features)}


class E6Text(Engine):
    name = "e6-lcd-text"
    property_id = "C17"
    components_real = ["transpile.parser/emitter (LCD helper templates compiled natively)", "Reduino.Displays.LCD under CPython"]
    components_stub = ["LiquidCrystal / LiquidCrystal_I2C (mock HD44780 cell matrix with cursor, CGRAM mode, out-of-range detection)"]
    assumptions = ["ASCII text only (UTF-8 bytes vs code points is a property of the display)", "rows and columns in range, as in the statement"]
    rule = (
        "seeded geometry (cols 1-40, rows 1-4, parallel or I2C, optional backlight pin / RW) x history of 1-30 "
        "write/line/message/clear/progress/display/backlight/brightness/glyph ops with texts of every length class, all "
        "alignments and clear flags; a sync marker after every op dumps the mock's cell matrix and snapshots the host "
        "buffer; cell equality (progress rows: filled length within one cell, exact when value*width % max == 0, "
        "saturating), no off-display access, backlight duty, glyph bytes; distinct = digest of the matrices at all syncs"
    )

    def setup(self) -> None:
        from dst.board import build
        from dst.host import executor

        build.ensure_runtime("plain")
        executor.install()

    def generate(self, rng, tier: str, avoid) -> dict:
        return LcdGen(rng, avoid, tier).generate()

    def execute(self, case: dict) -> Outcome:
        return compare_lcd_script(case["script"], case["world"], case.get("meta"))

    def shrink_candidates(self, case: dict) -> Iterable[dict]:
        lines = case["script"].splitlines()
        head = len(HEAD.splitlines()) + 1
        i = len(lines) - 1
        while i >= head:
            if lines[i].strip().startswith('mon.write("@') and i - 1 >= head:
                c = copy.deepcopy(case)
                c["script"] = "\n".join(lines[: i - 1] + lines[i + 1 :]) + "\n"
                try:
                    compile(c["script"], "<s>", "exec")
                    yield c
                except SyntaxError:
                    pass
                i -= 2
            else:
                i -= 1

    def sample_view(self, case: dict):
        return {"script": case["script"][len(HEAD):], "world": case["world"]}


# ====================================================================== C18


class E6Anim(Engine):
    name = "e6-lcd-anim"
    property_id = "C18"
    components_real = [
        "transpile.parser (LCDTick injection) + emitter (start/tick templates of scroll, blink, typewriter, bounce) compiled natively",
        "Reduino.Displays.LCD.animate/tick under CPython",
    ]
    components_stub = ["LiquidCrystal(_I2C) mock cell matrix", "millis() (virtual clock; the loop scheduler decides when each pass starts)"]
    assumptions = [
        "the rate limit is measured in millis() units, as the statement says",
        "termination bound for non-looping animations: 4*(len(text)+cols)+8 steps (deliberately loose, linear)",
    ]
    rule = (
        "1-3 animations (all four styles, texts from empty to longer than the row, loop on/off, speed 0-500 ms) on "
        "distinct rows of one display, each started before the main loop, inside a helper, or inside the loop body on "
        "pass 0/1/2/5 (directly or through a helper); the main loop has at most one sleep; "
        "tick schedules: on time, early (zero-gap passes), late, clock jumps, boot at 0 or later; board monitors: no "
        "delay besides the user's sleep, ticks per pass non-increasing and >= looping animations, every frame covers "
        "exactly its row, >= speed_ms between steps once millis() >= 1, bounded termination / liveness; the host "
        "LCD.tick is driven with the same timestamps and checked for the same invariants; distinct = digest of the "
        "per-pass step pattern"
    )

    def setup(self) -> None:
        from dst.board import build
        from dst.host import executor

        build.ensure_runtime("plain")
        executor.install()

    def generate(self, rng, tier: str, avoid) -> dict:
        r = rng
        cols = r.choice([1, 2, 8, 16, 16, 20, r.randint(1, 40)])
        rows = r.choice([1, 2, 2, 4])
        i2c = r.random() < 0.5
        n_anim = r.randint(1, min(3, rows))
        anim_rows = r.sample(range(rows), n_anim)
        anims = []
        for row in anim_rows:
            n = r.choice([0, 1, max(0, cols - 1), cols, cols + 1, cols + 7, r.randint(0, 45)])
            text = "".join(r.choice(TEXT_ALPHABET.replace('"', "")) for _ in range(n))
            anims.append({
                "style": r.choice(["scroll", "blink", "typewriter", "bounce"]),
                "row": row,
                "text": text,
                "speed_ms": r.choice([0, 1, 50, 200, 200, 500, r.randint(0, 500)]),
                "loop": r.random() < 0.5,
                "kw": r.random() < 0.5,
            })
        # where each animation is started: before the main loop, inside a helper function (called before the loop
        # or from it), or inside the loop body on a given pass; it must be advanced on every later pass either way
        late_ok = "anim_started_late" not in avoid
        for a in anims:
            a["where"] = r.choice(["setup", "setup", "setup", "helper", "loop", "loop_helper"]) if late_ok else "setup"
            a["start_pass"] = r.choice([0, 1, 2, 5]) if a["where"] in ("loop", "loop_helper") else -1
        max_start = max(a["start_pass"] for a in anims) + 1
        longest = max(len(a["text"]) for a in anims)
        bound = 4 * (longest + cols) + 8
        schedule = r.choice(["on_time", "on_time", "early", "late", "mixed", "jump"])
        horizon = min(400, bound + max_start + r.choice([6, 20, 40])) if schedule == "on_time" else r.choice([10, 40, 120])
        max_speed = max(a["speed_ms"] for a in anims)
        gaps = []
        for _ in range(horizon):
            if schedule == "on_time":
                gaps.append((max_speed + r.choice([0, 0, 1, 7])) * 1000)
            elif schedule == "early":
                gaps.append(r.choice([0, 0, 300, max_speed * 250]))
            elif schedule == "late":
                gaps.append(max_speed * 1000 * r.choice([2, 5, 11]) + 999)
            elif schedule == "jump":
                gaps.append(r.choice([0, max_speed * 1000, 3600 * 1000 * 1000]))
            else:
                gaps.append(r.choice([0, 500, max_speed * 1000, max_speed * 1000 + 1000, max_speed * 3000]))
        sleep_ms = r.choice([None, None, 0, 3, 40])
        boot = r.choice([0, 0, 1000, 999, 250000])
        if i2c:
            decl = f"lcd = LCD(i2c_addr=0x27, cols={cols}, rows={rows})"
        else:
            decl = f"lcd = LCD(rs=12, en=11, d4=5, d5=4, d6=3, d7=2, cols={cols}, rows={rows})"
        lines = [decl]
        if r.random() < 0.3:
            # a second, static display of another width on the same kind of interface: nothing it does may leak into
            # the animated one (shared helper templates, shared statics)
            cols2 = r.choice([cols + 4, cols + 20, max(1, cols - 3), 40])
            if i2c:
                lines.append(f"side = LCD(i2c_addr=0x3F, cols={cols2}, rows=2)")
            else:
                lines.append(f"side = LCD(rs=8, en=9, d4=10, d5=13, d6=6, d7=7, cols={cols2}, rows=2)")
            lines.append(r.choice(['side.line(0, "wide display")', "side.clear()", 'side.write(0, 1, "x")', 'side.line(1, "r", align="right")']))
            n_static = 2
        else:
            n_static = 0
        # a Button next to the animations: its per-pass sampling is injected at the same place as the animation ticks and
        # must neither displace nor delay them (pin 30 is never scripted: it reads LOW, so no click ever fires)
        with_button = r.random() < 0.3
        if with_button:
            lines.insert(0, "from Reduino.Sensors import Button")
            if r.random() < 0.5:
                lines += ["def clicked():", '    mon.write("B")', "btn = Button(30, on_click=clicked)"]
            else:
                lines.append("btn = Button(30)")
            n_static += len(lines) - 1 - n_static
        defs: List[str] = []
        in_loop: List[str] = []
        for i, a in enumerate(anims):
            text = '"' + a["text"].replace("\\", "\\\\") + '"'
            loop = "True" if a["loop"] else "False"
            if a["kw"]:
                call = f'lcd.animate("{a["style"]}", {a["row"]}, {text}, speed_ms={a["speed_ms"]}, loop={loop})'
            else:
                call = f'lcd.animate(style="{a["style"]}", row={a["row"]}, text={text}, loop={loop}, speed_ms={a["speed_ms"]})'
            if a["where"] in ("helper", "loop_helper"):
                defs += [f"def start{i}():", "    " + call]
                call = f"start{i}()"
            if a["where"] in ("loop", "loop_helper"):
                in_loop += [f"    if n == {a['start_pass'] + 1}:", "        " + call]
            else:
                lines.append(call)
        lines = lines[: 1 + n_static] + defs + lines[1 + n_static:]
        if in_loop:
            lines.append("n = 0")
        lines.append("while True:")
        if in_loop:
            lines.append("    n = n + 1")
            lines += in_loop
        if sleep_ms is not None:
            lines.append(f"    sleep({sleep_ms})")
        lines.append('    mon.write("T")')
        world = {"passes": horizon, "gaps": gaps, "boot_us": boot, "dump_lcd": True}
        if r.random() < 0.1:
            # the millisecond counter wraps during the run (elapsed-time arithmetic must be modular)
            world["millis_base"] = 2 ** 64 - r.choice([1, 50, 300, 5000, 100000])
        return {
            "script": HEAD + "\n".join(lines) + "\n",
            "world": world,
            "cols": cols, "rows": rows, "anims": anims, "schedule": schedule, "sleep_ms": sleep_ms, "bound": bound,
        }

    def execute(self, case: dict) -> Outcome:
        from dst.board import build
        from dst.engines.e1_diff import _first_error, transpile

        try:
            cpp = transpile(case["script"])
        except (ValueError, SyntaxError) as exc:
            return Outcome("rejected", message=str(exc)[:200], probes={"rejected": 1})
        binary = None
        try:
            try:
                binary = build.build_sketch(cpp)
            except build.BuildError as exc:
                return Outcome("violation", cls="build", message="firmware does not build: " + _first_error(exc.stderr))
            run = build.run_sketch(binary, case["world"])
        finally:
            build.discard(binary)
        tr = parse_board_log(run.log, run.exit_code, run.stderr)
        if tr.status != "ok":
            return Outcome("violation", cls=f"status/{tr.status}", message=tr.detail[:300])
        msg = self.judge_board(case, tr)
        if msg:
            return Outcome("violation", cls="board/" + msg[0], message=msg[1][:400])
        pattern = msg_pattern = self._step_pattern(case, tr)
        msg = self.judge_host(case)
        if msg:
            return Outcome("violation", cls="host/" + msg[0], message=msg[1][:400])
        w = case["world"]
        faults = {"boot_at_zero" if not w.get("boot_us") else "boot_offset": 1}
        faults["zero_gap_pass"] = sum(1 for g in w["gaps"] if g == 0)
        faults["late_pass"] = sum(1 for g in w["gaps"] if g >= 2000 * max(1, max(a["speed_ms"] for a in case["anims"])))
        faults["clock_jump"] = sum(1 for g in w["gaps"] if g >= 3600 * 1000 * 1000)
        return Outcome("ok", digest=sha(repr(pattern))[:16], nontrivial=any(any(p) for p in pattern), sim_ms=tr.end_ms, faults=faults,
                       probes={f"style_{a['style']}": 1 for a in case["anims"]} | {f"schedule_{case['schedule']}": 1})

    @staticmethod
    def _passes(tr):
        by_pass: Dict[int, List[Tuple[float, str, str]]] = {}
        for t, phase, kind, rest in tr.raw:
            if phase >= 0:
                by_pass.setdefault(phase, []).append((t, kind, rest))
        return by_pass

    def _step_pattern(self, case, tr):
        by_pass = self._passes(tr)
        out = []
        for k in sorted(by_pass):
            rows = set()
            for _t, kind, rest in by_pass[k]:
                if kind == "LCD" and " W " in " " + rest:
                    rows.add(int(rest.split()[3]))
            out.append(tuple(sorted(rows)))
        return out

    def judge_board(self, case: dict, tr) -> Optional[Tuple[str, str]]:
        cols = case["cols"]
        anims = case["anims"]
        by_row = {a["row"]: a for a in anims}
        by_pass = self._passes(tr)
        passes = case["world"]["passes"]
        oob = [r for _t, _p, k, r in tr.raw if k == "OOB"]
        if oob:
            return ("off-display", f"cell outside the display addressed: {oob[0]}")
        prev_ticks = None
        steps: Dict[int, List[Tuple[int, int]]] = {a["row"]: [] for a in anims}  # row -> [(pass, millis)]
        prev_eligible = None
        for k in range(passes):
            evs = by_pass.get(k, [])
            eligible = [a for a in anims if a.get("start_pass", -1) < k]  # started before this pass's ticks
            n_loop = sum(1 for a in eligible if a["loop"])
            dly = [int(r) for _t, kind, r in evs if kind == "DLY"]
            want = [] if case["sleep_ms"] is None else [case["sleep_ms"]]
            if dly != want:
                return ("blocks", f"pass {k}: delay calls {dly}, the script only sleeps {want}")
            millis = [int(r) for _t, kind, r in evs if kind == "MILLIS"]
            if len(millis) > len(eligible):
                return ("tick-count", f"pass {k}: {len(millis)} ticks for {len(eligible)} started animations")
            if len(millis) < n_loop:
                return ("tick-count", f"pass {k}: {len(millis)} ticks although {n_loop} looping animations are active")
            if prev_ticks is not None and prev_eligible == len(eligible) and len(millis) > prev_ticks:
                return ("tick-count", f"pass {k}: ticks went up from {prev_ticks} to {len(millis)}")
            prev_ticks = len(millis)
            prev_eligible = len(eligible)
            first_ser = next((i for i, (_t, kind, _r) in enumerate(evs) if kind in ("SER", "DLY")), len(evs))
            written: Dict[int, set] = {}
            for i, (_t, kind, rest) in enumerate(evs):
                if kind == "LCD" and " W " in " " + rest:
                    f = rest.split()
                    c, rw = int(f[2]), int(f[3])
                    if i > first_ser:
                        return ("tick-order", f"pass {k}: animation writes after user code started")
                    if rw not in by_row:
                        return ("row-confinement", f"pass {k}: write in row {rw}, which has no animation")
                    if not 0 <= c < cols:
                        return ("row-confinement", f"pass {k}: write at column {c} of a {cols}-column display")
                    if by_row[rw].get("start_pass", -1) == k:
                        continue  # the initial frame drawn by the start call of this pass, not a tick
                    if by_row[rw].get("start_pass", -1) > k:
                        return ("row-confinement", f"pass {k}: write in row {rw} before its animation was started")
                    written.setdefault(rw, set()).add(c)
            now_ms = millis[0] if millis else None
            for rw, cset in written.items():
                if cset != set(range(cols)):
                    return ("frame-width", f"pass {k}: frame in row {rw} covers columns {sorted(cset)[:5]}.. of {cols}")
                steps[rw].append((k, now_ms if now_ms is not None else -1))
        for a in anims:
            st = steps[a["row"]]
            sp = a["speed_ms"]
            for (k1, m1), (k2, m2) in zip(st, st[1:]):
                if sp > 0 and m1 >= 1 and (m2 - m1) % 2 ** 64 < sp:
                    return ("rate-limit", f"{a['style']} row {a['row']}: steps at millis {m1} (pass {k1}) and {m2} (pass {k2}) are closer than speed_ms={sp}")
            if not a["loop"] and len(st) > case["bound"]:
                return ("termination", f"non-looping {a['style']} made {len(st)} steps, bound {case['bound']}")
            if case["schedule"] == "on_time" and passes >= case["bound"] + 2 + a.get("start_pass", -1) + 1:
                last = {k for k, _m in st}
                if not a["loop"] and (passes - 1) in last:
                    return ("termination", f"non-looping {a['style']} ({len(a['text'])} chars, {cols} cols) still stepping at pass {passes - 1}")
                if a["loop"] and not {passes - 1, passes - 2} <= last:
                    return ("liveness", f"looping {a['style']} ({len(a['text'])} chars, {cols} cols, speed {sp}) stopped stepping: last steps {sorted(last)[-3:]} of {passes} passes")
        return None

    def judge_host(self, case: dict) -> Optional[Tuple[str, str]]:
        from Reduino.Displays.LCD import LCD

        cols, rows = case["cols"], case["rows"]
        lcd = LCD(i2c_addr=0x27, cols=cols, rows=rows)
        for r in range(rows):
            lcd.line(r, f"row{r}"[:cols])
        untouched = {r: lcd.buffer[r] for r in range(rows) if r not in {a["row"] for a in case["anims"]}}
        states: List[object] = []
        started: List[dict] = []

        def start(a):
            known = {id(x) for x in lcd.animations.values()}
            lcd.animate(a["style"], a["row"], a["text"], speed_ms=a["speed_ms"], loop=a["loop"])
            states.extend(x for x in lcd.animations.values() if id(x) not in known)
            started.append(a)

        for a in case["anims"]:
            if a.get("start_pass", -1) < 0:
                start(a)
        t_us = case["world"].get("boot_us", 0)
        last_step: Dict[int, Optional[int]] = {}
        n_steps: Dict[int, int] = {}
        for k, gap in enumerate(case["world"]["gaps"]):
            t_us += gap
            now = max(1, t_us // 1000)  # the statement quantifies over positive timestamps
            before = {id(s): (s.last_tick, s.active) for s in states}
            try:
                lcd.tick(now)
            except Exception as exc:
                return ("tick-raises", f"LCD.tick({now}) raised {type(exc).__name__}: {exc}")
            if len(lcd.buffer) != rows or any(len(row) != cols for row in lcd.buffer):
                return ("frame-width", f"buffer rows {[len(r) for r in lcd.buffer]} after tick {k}, display is {cols}x{rows}")
            for r, text in untouched.items():
                if lcd.buffer[r] != text:
                    return ("row-confinement", f"row {r} without animation changed to {lcd.buffer[r]!r}")
            for s, a in zip(states, started):
                stepped = before[id(s)][1] and s.last_tick == now and (before[id(s)][0] != now or before[id(s)][0] == 0)
                if stepped:
                    prev = last_step.get(id(s))
                    if prev is not None and a["speed_ms"] > 0 and prev >= 1 and now - prev < a["speed_ms"] and now != prev:
                        return ("rate-limit", f"host {a['style']}: steps at {prev} and {now} closer than speed_ms={a['speed_ms']}")
                    last_step[id(s)] = now
                    n_steps[id(s)] = n_steps.get(id(s), 0) + 1
                if a["loop"] and not s.active:
                    return ("liveness", f"host looping {a['style']} became inactive at tick {k}")
            for a in case["anims"]:
                if a.get("start_pass", -1) == k:
                    start(a)  # started by the user code of this pass, after the tick
        if case["schedule"] == "on_time" and len(case["world"]["gaps"]) >= case["bound"] + 2 + max(a.get("start_pass", -1) for a in case["anims"]) + 1:
            for s, a in zip(states, started):
                if not a["loop"] and s.active:
                    return ("termination", f"host non-looping {a['style']} ({len(a['text'])} chars, {cols} cols) still active after {len(case['world']['gaps'])} on-time ticks")
        return None

    def shrink_candidates(self, case: dict):
        if len(case["anims"]) > 1 and all(a.get("where", "setup") == "setup" for a in case["anims"]):
            for i in range(len(case["anims"])):
                c = copy.deepcopy(case)
                keep = c["anims"][i]
                c["anims"] = [keep]
                lines = [l for l in c["script"].splitlines() if not l.startswith("lcd.animate(") or f", {keep['row']}, " in l or f"row={keep['row']}," in l]
                c["script"] = "\n".join(lines) + "\n"
                yield c
        w = case["world"]
        if w["passes"] > 4 and case["schedule"] != "on_time":
            c = copy.deepcopy(case)
            c["world"]["passes"] = w["passes"] // 2
            c["world"]["gaps"] = w["gaps"][: w["passes"] // 2]
            yield c

    def sample_view(self, case: dict):
        return {"script": case["script"][len(HEAD):], "schedule": case["schedule"], "passes": case["world"]["passes"], "gaps_head": case["world"]["gaps"][:8]}
