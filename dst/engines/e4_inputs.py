"""E4 - inputs (C15): buttons, potentiometers and HC-SR04 ranging on the simulated board, driven by
scripted waveforms and call timing; small executable reference models predict the serial stream,
linear-time monitors check sampling, read counts, retry limit and the 60 ms trigger spacing."""

from __future__ import annotations

import copy
import struct
from typing import Dict, Iterable, List, Optional, Tuple

from dst.core.common import setup_repo_import, sha
from dst.core.runner import Engine, Outcome
from dst.core.trace import parse_board_log

setup_repo_import()

HEAD = (
    'from Reduino import target\ntarget("COM3")\nfrom Reduino.Communication import SerialMonitor\n'
    "from Reduino.Utils import sleep\nfrom Reduino.Sensors import Button, Potentiometer, Ultrasonic\n"
    'mon = SerialMonitor(9600, "COM3")\n'
)


def f32(x: float) -> float:
    return struct.unpack("f", struct.pack("f", float(x)))[0]


class InputGen:
    def __init__(self, rng, avoid, tier):
        self.rng = rng
        self.avoid = set(avoid)
        self.tier = tier

    def generate(self) -> dict:
        r = self.rng
        pins = [2, 3, 4, 5, 6, 7, 8, 9, 10, 11, 12]
        r.shuffle(pins)
        buttons, pots, sonars = [], [], []
        setup_lines: List[str] = []
        loop_decl: List[str] = []
        handlers: List[str] = []
        features = set()
        for i in range(r.choice([0, 1, 1, 2, 2, 3])):
            # two Button objects may watch the same pin: each is sampled and edge-detected on its own
            pin = buttons[-1]["pin"] if buttons and r.random() < 0.3 else pins.pop()
            cb = r.random() < 0.7
            in_loop = "button_loop_decl" not in self.avoid and r.random() < 0.25
            if in_loop:
                features.add("button_loop_decl")
            name = f"b{i}"
            if cb:
                handlers += [f"def h{i}():", f'    mon.write("C{i}")']
            decl = f"{name} = Button({pin}, on_click=h{i})" if cb else f"{name} = Button({pin})"
            (loop_decl if in_loop else setup_lines).append(decl)
            buttons.append({"name": name, "pin": pin, "cb": cb, "in_loop": in_loop, "idx": i})
        chans = [0, 1, 2, 3]
        r.shuffle(chans)
        for i in range(r.choice([0, 1, 1, 2])):
            ch = chans.pop()
            in_loop = r.random() < 0.2
            (loop_decl if in_loop else setup_lines).append(f'p{i} = Potentiometer("A{ch}")')
            if not in_loop and chans and r.random() < 0.2:
                # the same name bound to a second potentiometer: later reads use the new pin
                ch = chans.pop()
                setup_lines.append(f'p{i} = Potentiometer("A{ch}")')
            pots.append({"name": f"p{i}", "ch": ch, "in_loop": in_loop})
        for i in range(r.choice([0, 1, 1, 2])):
            trig, echo = pins.pop(), pins.pop()
            in_loop = r.random() < 0.2
            form = r.choice([f"Ultrasonic({trig}, {echo})", f"Ultrasonic(trig={trig}, echo={echo})", f'Ultrasonic({trig}, {echo}, sensor="HC-SR04")'])
            (loop_decl if in_loop else setup_lines).append(f"u{i} = {form}")
            sonars.append({"name": f"u{i}", "trig": trig, "echo": echo, "in_loop": in_loop})
        if not (buttons or pots or sonars):
            setup_lines.append('p0 = Potentiometer("A0")')
            pots.append({"name": "p0", "ch": 0, "in_loop": False})
        body: List[dict] = []
        for _ in range(r.randint(1, 8)):
            kinds = []
            if buttons:
                kinds += ["btn", "btn"]
            if pots:
                kinds += ["pot", "pot"]
            if sonars:
                kinds += ["sonar", "sonar"]
            kinds += ["sleep"]
            k = r.choice(kinds)
            if k == "btn":
                body.append({"op": "btn", "dev": r.choice(buttons)["name"]})
            elif k == "pot":
                # two reads in one tuple assignment are still two fresh reads
                body.append({"op": "pot2" if r.random() < 0.25 else "pot", "dev": r.choice(pots)["name"]})
            elif k == "sonar":
                body.append({"op": "sonar2" if r.random() < 0.2 else "sonar", "dev": r.choice(sonars)["name"]})
            else:
                body.append({"op": "sleep", "ms": r.choice([0, 1, 5, 20, 59, 60, 61, 100])})
        # also a measurement in setup sometimes (millis() may still be 0 there)
        setup_ops: List[dict] = []
        early_sonars = [s for s in sonars if not s["in_loop"]]
        early_pots = [p for p in pots if not p["in_loop"]]
        if early_sonars and r.random() < 0.4:
            setup_ops.append({"op": "sonar", "dev": r.choice(early_sonars)["name"]})
        if early_pots and r.random() < 0.3:
            setup_ops.append({"op": "pot", "dev": r.choice(early_pots)["name"]})
        lines = handlers + setup_lines
        for op in setup_ops:
            lines.append(self._render(op))
        lines.append("while True:")
        for d in loop_decl:
            lines.append("    " + d)
        for op in body:
            lines.append("    " + self._render(op))
        lines.append('    mon.write("E")')
        passes = r.choice([3, 5, 8, 12, 30 if self.tier != "quick" else 16])
        world: dict = {"passes": passes}
        din = {}
        for b in buttons:
            mode = r.choice(["random", "held_at_boot", "bounce", "pulse", "low", "high"])
            if mode == "random":
                seq = [r.randint(0, 1) for _ in range(passes + 1)]
            elif mode == "held_at_boot":
                hold = r.randint(1, passes)
                seq = [1] * (hold + 1) + [r.randint(0, 1) for _ in range(passes - hold)]
            elif mode == "bounce":
                seq = [(i % 2) for i in range(passes + 1)]
            elif mode == "pulse":
                seq = [0] * (passes + 1)
                for _ in range(r.randint(1, 3)):
                    a = r.randint(0, passes)
                    for j in range(a, min(passes + 1, a + r.randint(1, 3))):
                        seq[j] = 1
            else:
                seq = [1 if mode == "high" else 0] * (passes + 1)
            din[str(b["pin"])] = seq
        world["din"] = din
        ain = {}
        for p in pots:
            ain[str(14 + p["ch"])] = [r.choice([0, 1023, r.randint(0, 1023)]) for _ in range(passes * 4 + 4)]
        world["ain"] = ain
        pulse = {}
        for s in sonars:
            seq = []
            for _ in range(passes * 4 + 6):
                x = r.random()
                if x < 0.6:
                    seq.append(r.randint(100, 25000))
                elif x < 0.85:
                    seq.append(0)
                elif x < 0.95:
                    seq += [0, 0, 0]
                else:
                    seq.append(r.choice([30000, 30001, 45000, 1, 29999]))
            pulse[str(s["echo"])] = seq
        world["pulse"] = pulse
        world["gaps"] = [r.choice([0, 0, 500, 2000, 61000, 1000000]) for _ in range(passes)]
        if r.random() < 0.5:
            world["boot_us"] = r.choice([1000, 59000, 300000])
        if r.random() < 0.15:
            # the millisecond counter wraps during the run
            world["millis_base"] = 2 ** 64 - r.choice([1, 30, 45, 100, 1000, 5000, 70000])
        return {
            "script": HEAD + "\n".join(lines) + "\n",
            "world": world,
            "buttons": buttons,
            "pots": pots,
            "sonars": sonars,
            "setup_ops": setup_ops,
            "body": body,
            "features": sorted(features),
        }

    @staticmethod
    def _render(op: dict) -> str:
        if op["op"] == "btn":
            return f"mon.write({op['dev']}.is_pressed())"
        if op["op"] == "pot":
            return f"mon.write({op['dev']}.read())"
        if op["op"] == "sonar":
            return f"mon.write({op['dev']}.measure_distance())"
        if op["op"] == "pot2":
            return f"ra, rb = {op['dev']}.read(), {op['dev']}.read()\n    mon.write(ra)\n    mon.write(rb)"
        if op["op"] == "sonar2":
            return f"da, db = {op['dev']}.measure_distance(), {op['dev']}.measure_distance()\n    mon.write(da)\n    mon.write(db)"
        return f"sleep({op['ms']})"


class E4Inputs(Engine):
    name = "e4-inputs"
    property_id = "C15"
    components_real = [
        "transpile.parser/emitter: ButtonPoll, cached is_pressed(), analogRead lowering, ultrasonic measurement helper (compiled natively)",
        "Reduino.Sensors.Button (host model, driven with the same waveform)",
    ]
    components_stub = ["Arduino digitalRead/analogRead/pulseIn/millis/delay (mock: scripted waveforms on a virtual us clock)"]
    assumptions = [
        "the 60 ms spacing is measured on the board's millisecond clock (millis() at the next trigger minus millis() stored after the previous echo), as the statement says",
        "an echo longer than the 30 ms pulseIn time-out counts as a time-out",
    ]
    rule = (
        "seeded scripts with 0-2 buttons (with/without on_click, declared before the loop or at its top), 0-2 "
        "potentiometers, 0-2 HC-SR04 sensors and 1-8 is_pressed/read/measure_distance/sleep statements per pass, run "
        "for 3-30 passes against seeded waveforms (held at boot, bounce, pulses), ADC sequences, echo sequences with "
        "single time-outs and bursts >= 3, inter-pass gaps from 0 to 1 s and boot offsets; the serial stream is "
        "predicted by reference models; monitors: one digitalRead per button per pass before user code, one analogRead "
        "per read(), <= 3 pulseIn per call, >= 60 ms between triggers; distinct = digest of the serial stream"
    )

    def setup(self) -> None:
        from dst.board import build
        from dst.host import executor

        build.ensure_runtime("plain")
        executor.install()

    def generate(self, rng, tier: str, avoid) -> dict:
        return InputGen(rng, avoid, tier).generate()

    def execute(self, case: dict) -> Outcome:
        from dst.board import build
        from dst.engines.e1_diff import _first_error, transpile

        try:
            cpp = transpile(case["script"])
        except (ValueError, SyntaxError) as exc:
            return Outcome("rejected", message=str(exc)[:200], probes={"rejected": 1})
        binary = None
        try:
            try:
                binary = build.build_sketch(cpp)
            except build.BuildError as exc:
                return Outcome("violation", cls="build", message="firmware does not build: " + _first_error(exc.stderr))
            run = build.run_sketch(binary, case["world"])
        finally:
            build.discard(binary)
        tr = parse_board_log(run.log, run.exit_code, run.stderr)
        if tr.status != "ok":
            return Outcome("violation", cls=f"status/{tr.status}", message=tr.detail[:300])
        msg = self.judge(case, tr)
        if msg:
            return Outcome("violation", cls=msg[0], message=msg[1][:400])
        ser = [o.value for o in tr.channels.get("ser", [])]
        w = case["world"]
        faults: Dict[str, int] = {}
        for seq in w.get("din", {}).values():
            if seq[0] and len(seq) > 1 and seq[1]:
                faults["button_held_at_boot"] = faults.get("button_held_at_boot", 0) + 1
            if any(a != b for a, b in zip(seq, seq[1:])) and sum(a != b for a, b in zip(seq, seq[1:])) > len(seq) // 2:
                faults["button_bounce"] = faults.get("button_bounce", 0) + 1
        for seq in w.get("pulse", {}).values():
            faults["echo_timeout"] = faults.get("echo_timeout", 0) + sum(1 for v in seq if v == 0)
            if any(seq[i : i + 3] == [0, 0, 0] for i in range(len(seq) - 2)):
                faults["echo_timeout_burst"] = faults.get("echo_timeout_burst", 0) + 1
        faults["boot_offset" if w.get("boot_us") else "boot_at_zero"] = 1
        if any(g >= 1000000 for g in w.get("gaps", [])):
            faults["clock_jump"] = 1
        if w.get("millis_base"):
            faults["millis_wraparound"] = 1
        if any(seq and any(v in (0, 1023) for v in seq) for seq in w.get("ain", {}).values()):
            faults["adc_extreme"] = 1
        return Outcome("ok", digest=sha(repr(ser))[:16], nontrivial=len(ser) > case["world"]["passes"], sim_ms=tr.end_ms, faults=faults,
                       probes={"buttons": len(case["buttons"]), "pots": len(case["pots"]), "sonars": len(case["sonars"])})

    # ------------------------------------------------------------------ reference models + monitors
    @staticmethod
    def judge(case: dict, tr) -> Optional[Tuple[str, str]]:
        world = case["world"]
        passes = world["passes"]
        buttons, pots, sonars = case["buttons"], case["pots"], case["sonars"]
        bname = {b["name"]: b for b in buttons}
        pname = {p["name"]: p for p in pots}
        sname = {s["name"]: s for s in sonars}
        din = world.get("din", {})
        ain_pos = {str(14 + p["ch"]): 0 for p in pots}
        pulse_pos = {str(s["echo"]): 0 for s in sonars}
        last_good: Dict[str, Optional[float]] = {s["name"]: None for s in sonars}

        def level(b, phase_index):  # 0 = setup, k + 1 = pass k
            seq = din.get(str(b["pin"]), [0])
            return 1 if seq[min(phase_index, len(seq) - 1)] else 0

        def next_ain(p):
            key = str(14 + p["ch"])
            seq = world["ain"][key]
            i = ain_pos[key]
            ain_pos[key] = i + 1
            return seq[min(i, len(seq) - 1)]

        def measure(s):
            key = str(s["echo"])
            seq = world["pulse"][key]
            for _attempt in range(3):
                i = pulse_pos[key]
                pulse_pos[key] = i + 1
                d = seq[min(i, len(seq) - 1)]
                if 0 < d <= 30000:
                    val = f32(f32(f32(float(d)) * f32(0.0343)) / 2.0)
                    last_good[s["name"]] = val
                    return val
            return last_good[s["name"]] if last_good[s["name"]] is not None else 400.0

        expected: List[Tuple[int, object]] = []  # (phase, value)
        for op in case["setup_ops"]:
            if op["op"] == "pot":
                expected.append((-1, next_ain(pname[op["dev"]])))
            elif op["op"] == "sonar":
                expected.append((-1, measure(sname[op["dev"]])))
        prev = {b["name"]: level(b, 0) for b in buttons}
        clicks_model = {b["name"]: 0 for b in buttons}
        for k in range(passes):
            for b in sorted(buttons, key=lambda x: x["name"]):
                s = level(b, k + 1)
                if s and not prev[b["name"]]:
                    clicks_model[b["name"]] += 1
                    if b["cb"]:
                        expected.append((k, f"C{b['idx']}"))
                prev[b["name"]] = s
            for op in case["body"]:
                if op["op"] == "btn":
                    expected.append((k, level(bname[op["dev"]], k + 1)))
                elif op["op"] == "pot":
                    expected.append((k, next_ain(pname[op["dev"]])))
                elif op["op"] == "sonar":
                    expected.append((k, measure(sname[op["dev"]])))
                elif op["op"] == "pot2":
                    expected.append((k, next_ain(pname[op["dev"]])))
                    expected.append((k, next_ain(pname[op["dev"]])))
                elif op["op"] == "sonar2":
                    expected.append((k, measure(sname[op["dev"]])))
                    expected.append((k, measure(sname[op["dev"]])))
            expected.append((k, "E"))
        got = [(o.phase, o.value) for o in tr.channels.get("ser", [])]
        for i in range(max(len(got), len(expected))):
            if i >= len(got):
                return ("serial-missing", f"line {i}: expected {expected[i]}, the firmware printed nothing more")
            if i >= len(expected):
                return ("serial-extra", f"line {i}: unexpected {got[i]}")
            (gp, gv), (ep, ev) = got[i], expected[i]
            ok = gp == ep
            if isinstance(ev, str):
                ok = ok and gv == ev
            elif isinstance(ev, float):
                try:
                    ok = ok and abs(float(gv) - ev) <= 0.006 + 1e-5 * abs(ev)
                except ValueError:
                    ok = False
            else:
                ok = ok and gv == str(ev)
            if not ok:
                kind = "click" if (isinstance(ev, str) and ev.startswith("C")) or str(gv).startswith("C") else "value"
                return (f"serial-{kind}", f"line {i}: firmware printed {gv!r} in phase {gp}, the reference model says {ev!r} in phase {ep}")
        # ---- monitors over the raw log
        by_phase: Dict[int, List[Tuple[str, str, float]]] = {}
        for t, phase, kind, rest in tr.raw:
            by_phase.setdefault(phase, []).append((kind, rest, t))
        for k in range(passes):
            evs = by_phase.get(k, [])
            first_user = next((i for i, (kind, rest, _t) in enumerate(evs) if (kind == "SER" and not rest.partition(" ")[2].startswith("C")) or kind in ("AR", "PULSEIN", "DLY")), len(evs))
            for b in buttons:
                reads = [i for i, (kind, rest, _t) in enumerate(evs) if kind == "DR" and int(rest.split()[0]) == b["pin"]]
                sharing = sum(1 for o in buttons if o["pin"] == b["pin"])
                if len(reads) != sharing:
                    return ("button-sampling", f"pass {k}: {sharing} button(s) on pin {b['pin']} sampled {len(reads)} times")
                if reads[-1] > first_user:
                    return ("button-sampling", f"pass {k}: button on pin {b['pin']} sampled after user code started")
            n_reads = {}
            for op in case["body"]:
                if op["op"] in ("pot", "pot2"):
                    n_reads[pname[op["dev"]]["ch"]] = n_reads.get(pname[op["dev"]]["ch"], 0) + (2 if op["op"] == "pot2" else 1)
            for p in pots:
                ars = sum(1 for kind, rest, _t in evs if kind == "AR" and int(rest.split()[0]) == 14 + p["ch"])
                if ars != n_reads.get(p["ch"], 0):
                    return ("pot-reads", f"pass {k}: {ars} analogRead on A{p['ch']} for {n_reads.get(p['ch'], 0)} read() calls")
        # ultrasonic: attempts per call and trigger spacing, per sensor
        for s in sonars:
            stored_ms: Optional[int] = None  # what the helper remembers as "last trigger" (millis() right after the echo)
            last_millis: Optional[int] = None
            attempts_in_call = 0
            # calls are delimited by the serial line that follows them; a tuple of two calls has no line in between
            calls_per_statement = 2 if any(op["op"] == "sonar2" and op["dev"] == s["name"] for op in case["body"]) else 1
            for t, phase, kind, rest in tr.raw:
                if kind == "MILLIS":
                    last_millis = int(rest)
                elif kind == "SER":
                    attempts_in_call = 0
                elif kind == "PULSEIN" and int(rest.split()[0]) == s["echo"]:
                    attempts_in_call += 1
                    if attempts_in_call > 3 * calls_per_statement:
                        return ("sonar-retries", f"more than three trigger attempts per measure_distance() call on echo pin {s['echo']}")
                    if stored_ms is not None and stored_ms >= 1 and last_millis is not None and (last_millis - stored_ms) % 2 ** 64 < 60:
                        return ("sonar-spacing", f"sensor on echo pin {s['echo']} triggered {(last_millis - stored_ms) % 2 ** 64} ms after the previous attempt (millis {stored_ms} -> {last_millis})")
                    stored_ms = -1  # filled by the next MILLIS event
                    continue
                if kind == "MILLIS" and stored_ms == -1:
                    stored_ms = int(rest)
        # host Button with the same waveform gives the same number of clicks when the signal starts released
        from Reduino.Sensors.Button import Button

        for b in buttons:
            if not b["cb"]:
                continue
            seq = din.get(str(b["pin"]), [0])
            if seq[0]:
                continue
            samples = [seq[min(k + 1, len(seq) - 1)] for k in range(passes)]
            it = iter(samples)
            hits: List[int] = []
            hb = Button(b["pin"], on_click=lambda: hits.append(1), state_provider=lambda: next(it))
            for _ in samples:
                hb.is_pressed()
            board_clicks = sum(1 for _p, v in got if v == f"C{b['idx']}")
            if len(hits) != board_clicks:
                return ("host-clicks", f"button on pin {b['pin']}: firmware fired {board_clicks} clicks, the host Button {len(hits)} for waveform {seq}")
        return None

    def shrink_candidates(self, case: dict) -> Iterable[dict]:
        w = case["world"]
        if w["passes"] > 1:
            c = copy.deepcopy(case)
            c["world"]["passes"] = max(1, w["passes"] // 2)
            yield c
        for i in range(len(case["body"]) - 1, -1, -1):
            c = copy.deepcopy(case)
            del c["body"][i]
            c["script"] = _rebuild(c)
            yield c
        if case["setup_ops"]:
            c = copy.deepcopy(case)
            c["setup_ops"] = []
            c["script"] = _rebuild(c)
            yield c
        if w.get("gaps") and any(w["gaps"]):
            c = copy.deepcopy(case)
            c["world"]["gaps"] = [0]
            yield c

    def sample_view(self, case: dict):
        return {"script": case["script"][len(HEAD):], "world": {k: (v if k not in ("ain", "pulse") else {kk: vv[:8] for kk, vv in v.items()}) for k, v in case["world"].items()}}


def _rebuild(case: dict) -> str:
    lines = case["script"][len(HEAD):].splitlines()
    head = [l for l in lines[: lines.index("while True:")] if not l.startswith("mon.write(")]
    loop_decl = [l for l in lines[lines.index("while True:") + 1 :] if " = " in l and l.startswith("    ") and "(" in l and l.strip().split(" = ")[1].split("(")[0] in ("Button", "Potentiometer", "Ultrasonic")]
    out = head + [InputGen._render(op) for op in case["setup_ops"]] + ["while True:"] + loop_decl + ["    " + InputGen._render(op) for op in case["body"]] + ['    mon.write("E")']
    return HEAD + "\n".join(out) + "\n"
