"""E9 - the author's PC: target() pipeline under fault injection (C12), registry validation and
project files on a sandboxed file system (C13)."""

from __future__ import annotations

import configparser
import copy
import re
import shutil
import subprocess
from typing import Dict, Iterable, List, Optional, Tuple

from dst.core.common import setup_repo_import, sha
from dst.core.runner import Engine, Outcome

setup_repo_import()

PIPELINE_FAULTS = [
    "bad_pair",
    "pio_missing",
    "pio_nonzero",
    "main_unreadable",
    "parse_reject",
    "mkdtemp_fail",
    "mkdir_fail",
    "write_main_fail",
    "write_ini_fail",
    "build_fail",
    "upload_fail",
]

_PORTS = ["COM3", "COM12", "/dev/ttyACM0", "/dev/ttyUSB1", "/dev/cu.usbmodem14101", "usb:001/004", "192.168.1.50", "COM3 ; x", "a=b", "100%", "[x]", "~/dev"]


def _real_target():
    import Reduino

    return getattr(Reduino, "__dst_real_target__", None) or Reduino.target


def device_script(rng, *, reject: bool = False) -> Tuple[str, List[str]]:
    """A small accepted script with a seeded device mix; returns (text, libraries it needs)."""

    lines = ["from Reduino import target", 'target("COM3", upload=False)', "from Reduino.Utils import sleep"]
    libs: List[str] = []
    n_servo = rng.choice([0, 0, 1, 2])
    lcd_par = rng.random() < 0.35
    lcd_i2c = rng.random() < 0.35
    lines.append("from Reduino.Actuators import Led, Servo, Buzzer")
    lines.append("from Reduino.Displays import LCD")
    lines.append("from Reduino.Communication import SerialMonitor")
    lines.append('mon = SerialMonitor(9600, "COM3")')
    lines.append(f"led = Led({rng.choice([13, 9, 6])})")
    loop_servo = n_servo and rng.random() < 0.3
    for i in range(n_servo):
        if not (loop_servo and i == 0):
            lines.append(f"sv{i} = Servo({rng.choice([3, 5, 10])})")
    if n_servo:
        libs.append("Servo")
    if lcd_par:
        lines.append("lcd = LCD(rs=12, en=11, d4=5, d5=4, d6=3, d7=2)")
        lines.append(f'lcd.line(0, "{rng.choice(["hi", "ready", "x=1"])}")')
        libs.append("LiquidCrystal")
    if lcd_i2c:
        lines.append("panel = LCD(i2c_addr=0x27, cols=20, rows=4)")
        lines.append('panel.line(1, "i2c")')
        libs.append("LiquidCrystal_I2C")
    if rng.random() < 0.3:
        lines.append("bz = Buzzer(8)")
        lines.append("bz.beep(440, on_ms=10, off_ms=5, times=1)")
    lines.append(f"n = {rng.randint(0, 9)}")
    lines.append("while True:")
    if loop_servo:
        lines.append(f"    sv0 = Servo({rng.choice([3, 5, 10])})")
    lines.append("    led.toggle()")
    lines.append("    n += 1")
    lines.append("    mon.write(n)")
    for i in range(n_servo):
        lines.append(f"    sv{i}.write({rng.choice([0, 45, 90])})")
    if reject:
        lines.append("    break")
    lines.append(f"    sleep({rng.choice([1, 10, 250])})")
    if rng.random() < 0.2:
        lines.append('    mon.write("ünï ✓")')
    return "\n".join(lines) + "\n", libs


_PRIOR_SCRIPT = (
    'from Reduino import target\ntarget("COM9")\nfrom Reduino.Actuators import Led\nfrom Reduino.Utils import sleep\n'
    "led = Led(13)\nwhile True:\n    led.toggle()\n    sleep(100)\n"
)


class E9Target(Engine):
    name = "e9-target"
    property_id = "C12"
    components_real = [
        "Reduino.target", "toolchain.pio.validate_platform_board/ensure_pio/write_project/compile_upload",
        "transpile.parser.parse", "transpile.emitter.emit", "_collect_required_libraries",
    ]
    components_stub = [
        "subprocess.run (fake PlatformIO CLI; `pio run` really compiles src/main.cpp against the mock core with only the declared lib_deps on the include path, in a third of the runs)",
        "tempfile.mkdtemp, Path.mkdir/write_text/read_text (sandbox directory with fault injection)",
        "sys.modules['__main__'].__file__ (points at the generated script)",
    ]
    assumptions = ["a `pio --version` probe with upload=False is tolerated: the statement only says PlatformIO is not needed"]
    rule = (
        "fault enumeration: {no fault + each of 11 fault points} x {upload} x {pio present} is enumerated completely per "
        "batch (thorough adds seeded pairs); scripts (device mix -> needed libraries), ports and registry / near-miss "
        "(platform, board) pairs are sampled; a third of the cases are preceded by a successful target(upload=True) in the "
        "same process; non-trivial = pipeline got past validation; distinct = digest of the "
        "recorded effect history"
    )

    def setup(self) -> None:
        from dst.board import build

        build.ensure_runtime("plain")

    def generate(self, rng, tier: str, avoid) -> dict:
        import Reduino.toolchain.pio as pio

        # complete enumeration of fault point x upload x pio-present, cycling with the run index
        idx = rng.getrandbits(30)
        combos = [(f, u, p) for f in [None] + PIPELINE_FAULTS for u in (False, True) for p in (True, False)]
        fault, upload, pio_present = combos[getattr(rng, "_dst_index", idx) % len(combos)]
        faults = [fault] if fault else []
        if tier == "thorough" and rng.random() < 0.4:
            faults.append(rng.choice(PIPELINE_FAULTS))
        if "pio_missing" in faults:
            pio_present = False
        platform = rng.choice(sorted(pio.SUPPORTED_PLATFORMS))
        board = rng.choice(sorted(pio.SUPPORTED_PLATFORMS[platform]))
        if "bad_pair" in faults:
            kind = rng.choice(["other_platform", "unknown_board", "unknown_platform", "case", "space"])
            if kind == "other_platform":
                other = [p for p in sorted(pio.SUPPORTED_PLATFORMS) if p != platform][0]
                board = rng.choice(sorted(pio.SUPPORTED_PLATFORMS[other]))
            elif kind == "unknown_board":
                board = board + rng.choice(["x", "_", "2"])
            elif kind == "unknown_platform":
                platform = rng.choice(["atmelsam", "espressif32", "atmelavr ", "", "AtmelAVR"])
            elif kind == "case":
                board = board.swapcase() if board.swapcase() != board else board + "X"
            else:
                board = " " + board
            if board in pio.SUPPORTED_PLATFORMS.get(platform, ()):  # an accidental valid pair
                board = board + "?"
        script, libs = device_script(rng, reject="parse_reject" in faults)
        return {
            "script": script,
            "libs": libs,
            "port": rng.choice(_PORTS),
            "platform": platform,
            "board": board,
            "upload": upload,
            "pio_present": pio_present,
            "faults": sorted(set(faults)),
            "real_build": rng.random() < 0.33,
            # an earlier, successful target(upload=True) in the same process: nothing it did may carry over
            "prior_success": rng.random() < 0.35,
        }

    def execute(self, case: dict) -> Outcome:
        from dst.board import build
        from dst.pc.sandbox import Effects, fresh_sandbox, listing, pc_world
        from Reduino.transpile.emitter import emit
        from Reduino.transpile.parser import parse

        target = _real_target()
        import Reduino
        import Reduino.toolchain.pio as pio_mod

        # every case starts from the module state of a fresh interpreter as far as memoisation goes
        for mod in (Reduino, pio_mod):
            for obj in list(vars(mod).values()):
                clear = getattr(obj, "cache_clear", None)
                if callable(clear):
                    clear()
        if case.get("prior_success"):
            prior_box = fresh_sandbox("c12p")
            try:
                prior_main = prior_box / "user" / "sketch.py"
                prior_main.parent.mkdir(parents=True)
                prior_main.write_text(_PRIOR_SCRIPT, encoding="utf-8")
                with pc_world(Effects(), prior_box, pio_present=True, faults={}, build_hook=lambda project: 0, main_file=prior_main):
                    import contextlib
                    import io

                    try:
                        with contextlib.redirect_stderr(io.StringIO()):
                            target("COM9", upload=True)
                    except Exception:
                        pass
            finally:
                shutil.rmtree(prior_box, ignore_errors=True)
        faults = {f: True for f in case["faults"]}
        sandbox = fresh_sandbox("c12")
        main_file = sandbox / "user" / "sketch.py"
        main_file.parent.mkdir(parents=True)
        main_file.write_text(case["script"], encoding="utf-8")
        before = listing(sandbox)
        effects = Effects()
        built: Dict[str, object] = {}

        def build_hook(project):
            # what a real `pio run` does with the project: compile main.cpp with the declared libraries only
            if not case.get("real_build"):
                return 0
            ini = configparser.ConfigParser(interpolation=None)
            ini.read(project / "platformio.ini", encoding="utf-8")
            section = ini.sections()[0]
            libs = [l.strip() for l in ini.get(section, "lib_deps", fallback="").splitlines() if l.strip()]
            try:
                binary = build.build_sketch((project / "src" / "main.cpp").read_text(encoding="utf-8"), "plain", libs=libs)
            except build.BuildError as exc:
                built["error"] = exc.stderr[-600:]
                return 1
            build.discard(binary)
            built["ok"] = True
            return 0

        result = None
        raised: Optional[BaseException] = None
        try:
            with pc_world(effects, sandbox, pio_present=case["pio_present"], faults=faults, build_hook=build_hook, main_file=main_file):
                import contextlib
                import io

                try:
                    with contextlib.redirect_stderr(io.StringIO()):
                        result = target(case["port"], upload=case["upload"], platform=case["platform"], board=case["board"])
                except Exception as exc:
                    raised = exc
            after = listing(sandbox)
            verdict = self._judge(case, effects, result, raised, before, after, built, parse, emit)
        finally:
            shutil.rmtree(sandbox, ignore_errors=True)
        if verdict:
            return Outcome("violation", cls=verdict[0], message=verdict[1][:400], faults={f: 1 for f in case["faults"]})
        digest = sha(repr([(e[0],) + tuple(str(x).replace(str(sandbox), "$SB") for x in e[1:]) for e in effects.log]) + repr(type(raised)))[:16]
        return Outcome(
            "ok",
            digest=digest,
            nontrivial="bad_pair" not in faults,
            faults={f: 1 for f in case["faults"]} or {"none": 1},
            probes={"upload": int(case["upload"]), "pio_absent": int(not case["pio_present"]), "real_build": int(bool(built))},
        )

    @staticmethod
    def _judge(case, effects, result, raised, before, after, built, parse, emit):
        faults = set(case["faults"])
        upload = case["upload"]
        log = effects.log
        runs = [e for e in log if e[0] == "run"]
        pio_runs = [e for e in runs if e[1][1:2] == ("run",)]
        writes = [e for e in log if e[0] in ("write", "mkdir", "mkdtemp")]
        new_files = {k: v for k, v in after.items() if k not in before}

        def first_index(pred):
            for i, e in enumerate(log):
                if pred(e):
                    return i
            return None

        # 1. validation comes first
        if "bad_pair" in faults:
            if not isinstance(raised, ValueError):
                return ("validate", f"unsupported pair ({case['platform']!r}, {case['board']!r}) gave {type(raised).__name__ if raised else 'no error'}")
            if log or new_files:
                return ("validate-order", f"effects before the ValueError for an unsupported pair: {log[:3]} files {sorted(new_files)[:3]}")
            return None
        if isinstance(raised, ValueError) and "parse_reject" not in faults:
            return ("validate", f"registered pair rejected: {raised}")
        # 2. PlatformIO is needed only for an upload
        pio_bad = (not case["pio_present"]) or "pio_nonzero" in faults
        if upload and pio_bad:
            if not isinstance(raised, RuntimeError):
                return ("pio-missing", f"upload=True without a working PlatformIO gave {type(raised).__name__ if raised else 'no error'}")
            if writes or new_files:
                return ("pio-missing-order", f"files written before the RuntimeError: {writes[:3]} {sorted(new_files)[:3]}")
            return None
        if not upload and pio_runs:
            return ("upload-not-requested", f"upload=False but PlatformIO was run: {pio_runs}")
        if not upload and pio_bad and isinstance(raised, RuntimeError):
            return ("transpile-only-needs-pio", "upload=False fails without PlatformIO: " + str(raised)[:120])
        # 3. remaining fault points in pipeline order
        ordered = [
            ("main_unreadable", OSError), ("parse_reject", ValueError), ("mkdtemp_fail", OSError), ("mkdir_fail", OSError),
            ("write_main_fail", OSError), ("write_ini_fail", OSError),
        ]
        for name, exc_type in ordered:
            if name in faults:
                if raised is None:
                    return ("fault-swallowed", f"{name} injected but target() returned normally")
                if not isinstance(raised, exc_type):
                    return ("fault-type", f"{name} injected, got {type(raised).__name__}: {raised}")
                if pio_runs:
                    return ("fault-order", f"{name} injected but PlatformIO was still run: {pio_runs}")
                if name in ("main_unreadable", "parse_reject") and (writes or new_files):
                    return ("fault-order", f"{name}: project files written although transpilation failed: {writes[:3]}")
                return None
        if upload and "build_fail" in faults:
            if not isinstance(raised, subprocess.CalledProcessError):
                return ("tool-failure", f"failed build gave {type(raised).__name__ if raised else 'no error'}")
            if any(e[1][1:] == ("run", "-t", "upload") for e in runs):
                return ("upload-after-failed-build", f"upload issued after a failed build: {runs}")
            return None
        if upload and "upload_fail" in faults:
            if not isinstance(raised, subprocess.CalledProcessError):
                return ("tool-failure", f"failed upload gave {type(raised).__name__ if raised else 'no error'}")
        elif raised is not None:
            if built.get("error"):
                return ("project-does-not-build", "the generated project does not build with its declared lib_deps: " + str(built["error"])[-300:])
            return ("unexpected-exception", f"{type(raised).__name__}: {raised}")
        # 4. success path (possibly with a failing upload at the very end)
        expected = emit(parse(case["script"]))
        if raised is None and result != expected:
            return ("return-value", "target() did not return emit(parse(text)) of the calling script")
        projects = [k for k in new_files if k.endswith("platformio.ini")]
        if len(projects) != 1:
            return ("project", f"expected exactly one project, found {projects}")
        root = projects[0][: -len("platformio.ini")]
        main_cpp = after.get(root + "src/main.cpp")
        if main_cpp is None or main_cpp.decode("utf-8") != expected:
            return ("main-cpp", "src/main.cpp is not the returned firmware source")
        extra = [k for k in new_files if not k.startswith(root) and k != root.rstrip("/") and not root.startswith(k + "/")]
        if extra:
            return ("stray-files", f"files outside the project directory: {extra[:4]}")
        ini = configparser.ConfigParser(interpolation=None)
        try:
            ini.read_string(after[projects[0]].decode("utf-8"))
        except configparser.Error as exc:
            return ("ini", f"platformio.ini does not parse: {exc}")
        if len(ini.sections()) != 1 or not ini.sections()[0].startswith("env:"):
            return ("ini", f"sections {ini.sections()}")
        sec = ini[ini.sections()[0]]
        want = {"platform": case["platform"], "board": case["board"], "framework": "arduino", "upload_port": case["port"]}
        for k, v in want.items():
            if sec.get(k) != v:
                return ("ini", f"{k} = {sec.get(k)!r}, expected {v!r}")
        libs = [l.strip() for l in sec.get("lib_deps", "").splitlines() if l.strip()]
        if sorted(libs) != sorted(case["libs"]) or len(set(libs)) != len(libs):
            return ("lib-deps", f"lib_deps {libs}, the script needs {case['libs']}")
        cmds = [e[1][1:] for e in runs if e[1][1:] != ("--version",)]
        if upload:
            want_cmds = [("run",), ("run", "-t", "upload")]
            if cmds != want_cmds:
                return ("commands", f"PlatformIO commands {cmds}, expected {want_cmds}")
            cwds = {e[2] for e in runs if e[1][1:] != ("--version",)}
            if len(cwds) != 1 or not str(next(iter(cwds))).rstrip("/").endswith(root.rstrip("/")):
                return ("commands", f"PlatformIO run outside the project directory: {cwds}")
            last_write = max((i for i, e in enumerate(log) if e[0] == "write"), default=-1)
            first_run = first_index(lambda e: e[0] == "run" and e[1][1:2] == ("run",))
            if first_run is not None and first_run < last_write:
                return ("commands-order", "PlatformIO was started before the project was completely written")
        elif cmds:
            return ("upload-not-requested", f"upload=False but commands {cmds}")
        return None

    def shrink_candidates(self, case: dict) -> Iterable[dict]:
        if len(case["faults"]) > 1:
            for f in case["faults"]:
                c = copy.deepcopy(case)
                c["faults"] = [f]
                yield c
        if case.get("real_build"):
            c = copy.deepcopy(case)
            c["real_build"] = False
            yield c
        lines = case["script"].splitlines()
        for i in range(len(lines) - 1, 2, -1):
            if lines[i].startswith("while True") or not lines[i].strip():
                continue
            c = copy.deepcopy(case)
            c["script"] = "\n".join(lines[:i] + lines[i + 1 :]) + "\n"
            yield c


# ====================================================================== C13


def near_misses(name: str) -> List[str]:
    out = {name.upper(), name.lower(), name.swapcase(), name + " ", " " + name, name + "_", name[:-1], name + "x", name.replace("_", "-"), name.replace("_", ""), ""}
    out.discard(name)
    return sorted(out)


class E9Project(Engine):
    name = "e9-project"
    property_id = "C13"
    components_real = ["toolchain.pio.validate_platform_board", "toolchain.pio.write_project (+ _format_lib_section, _sanitize_env_name)"]
    components_stub = ["PlatformIO's INI reader (configparser without interpolation stands in)", "project directory (sandbox under .work/)"]
    assumptions = ["ports and library names are printable without leading/trailing blanks or newlines (the INI format cannot carry those)"]
    rule = (
        "run 0 sweeps validate_platform_board over (registry + near-miss names)^2 exhaustively (accept iff board in "
        "SUPPORTED_PLATFORMS[platform]; every board in exactly one platform); every other run is a history of 1-4 write_project calls "
        "into one sandbox project directory (fresh, or holding a stale main.cpp / platformio.ini of an earlier session): "
        "seeded port, library list with duplicates/empties, source text incl. non-ASCII; a later call re-uses parts of "
        "the earlier one and a near copy of its source (same length, prefix, extension, identical); after every call "
        "the directory is read back; distinct = digest of (ini, main.cpp)"
    )

    def generate(self, rng, tier: str, avoid) -> dict:
        import Reduino.toolchain.pio as pio

        if getattr(rng, "_dst_index", 1) == 0:
            return {"mode": "sweep"}
        alphabet = "abcXYZ019 /\\:;.,-_=+*%#@!~()[]{}<>|&^$'\"`?"
        pool = ["Servo", "LiquidCrystal", "LiquidCrystal_I2C", "", "Adafruit NeoPixel", "arduino-libraries/Servo@^1.2.1",
                "https://github.com/x/y.git#v1", "Wire", "a=b", "100%", "[bracket]"]
        chunks = ["void setup() {}\n", "void loop() {}\n", "// ünïcödé ✓ 漢字\n", "\t\tint x = 1;\r\n", "#include <Arduino.h>\n", "String s = \"%d {} [x]\";\n", "\n\n", "no trailing newline",
                  "const int PIN = 12;\n", "delay(500);\n"]

        def step(prev=None) -> dict:
            platform = rng.choice(sorted(pio.SUPPORTED_PLATFORMS))
            board = rng.choice(sorted(pio.SUPPORTED_PLATFORMS[platform]))
            port = rng.choice(_PORTS) if rng.random() < 0.4 else "".join(rng.choice(alphabet) for _ in range(rng.randint(1, 24))).strip() or "COM1"
            libs = [rng.choice(pool) for _ in range(rng.choice([0, 0, 1, 2, 3, 5, 8]))]
            lib_mode = rng.choice(["list", "list", "none", "tuple", "generator"])
            source = "".join(rng.choice(chunks) for _ in range(rng.randint(0, 6)))
            if prev is not None:
                # the project directory is reused: keep parts of the previous call, and make the new source a
                # near copy of the old one (same length, a prefix, an extension) as a rebuild after an edit would
                how = rng.choice(["same_len", "same_len", "prefix", "extend", "fresh", "identical", "respell", "respell"])
                old = prev["source"]
                if how == "respell":
                    # the same text under another spelling that a text-mode comparison, a strip or a case fold would
                    # call equal: other line endings, trailing blanks, tabs for spaces, another case
                    variants = [old.replace("\r\n", "\n"), old.replace("\r\n", "\n").replace("\n", "\r\n"), old.replace("\r\n", "\n").replace("\n", "\r"),
                                old.rstrip(), old.strip(), old + "\n", old.replace("\t", "    "), old.replace(" ", "\t"), old.upper(), old.lower(),
                                old.replace("\n", " \n"), old.replace("\n\n", "\n")]
                    variants = [v for v in variants if v != old]
                    if variants:
                        source = rng.choice(variants)
                if how == "same_len" and old:
                    idx = [i for i, c in enumerate(old) if ord(c) < 128 and c not in "\r\n"]
                    if idx:
                        i = rng.choice(idx)
                        source = old[:i] + rng.choice([c for c in "0123456789abcXYZ;" if c != old[i]]) + old[i + 1:]
                elif how == "prefix":
                    source = old[: rng.randint(0, len(old))]
                elif how == "extend":
                    source = old + rng.choice(chunks)
                elif how == "identical":
                    source = old
                if rng.random() < 0.5:
                    platform, board = prev["platform"], prev["board"]
                if rng.random() < 0.5:
                    port = prev["port"]
                if rng.random() < 0.3:
                    libs, lib_mode = list(prev["libs"]), prev["lib_mode"] if prev["lib_mode"] != "generator" else "list"
            return {"platform": platform, "board": board, "port": port, "libs": libs, "lib_mode": lib_mode, "source": source}

        steps = [step()]
        for _ in range(rng.choice([0, 0, 1, 2, 3])):
            steps.append(step(steps[-1]))
        stale = rng.choice([None, None, None, "main", "ini", "both"])
        return {"mode": "write", "steps": steps, "stale": stale}

    def execute(self, case: dict) -> Outcome:
        import Reduino.toolchain.pio as pio

        if case["mode"] == "sweep":
            return self._sweep(pio)
        from dst.pc.sandbox import fresh_sandbox, listing

        sandbox = fresh_sandbox("c13")
        try:
            (sandbox / "neighbour.txt").write_text("untouched")
            project = sandbox / "proj"
            project.mkdir()
            # a project directory left over from an earlier session
            stale = case.get("stale")
            if stale in ("main", "both"):
                (project / "src").mkdir()
                (project / "src" / "main.cpp").write_text("// stale firmware\nvoid setup() {}\nvoid loop() {}\n")
            if stale in ("ini", "both"):
                (project / "platformio.ini").write_text("[env:old]\nplatform = atmelavr\nboard = uno\nframework = arduino\nupload_port = COM9\nlib_deps =\n  Stale\n")
            before = {k: v for k, v in listing(sandbox).items() if not k.startswith("proj/")}
            steps = case.get("steps") or [case]
            last = None
            for k, st in enumerate(steps):
                last = self._write_and_check(pio, sandbox, project, before, st, k)
                if last.status != "ok":
                    return last
            last.probes["writes"] = len(steps)
            last.faults = {"project_dir_reused": len(steps) - 1, "stale_project": int(bool(stale)),
                           "respelt_rewrite": sum(1 for a, b in zip(steps, steps[1:]) if a["source"] != b["source"] and "".join(a["source"].split()).lower() == "".join(b["source"].split()).lower()),
                           "same_length_rewrite": sum(1 for a, b in zip(steps, steps[1:]) if a["source"] != b["source"] and len(a["source"].encode()) == len(b["source"].encode()))}
            return last
        finally:
            shutil.rmtree(sandbox, ignore_errors=True)

    def _write_and_check(self, pio, sandbox, project, before, case: dict, step_no: int) -> Outcome:
        from dst.pc.sandbox import listing

        if True:
            libs = case["libs"]
            arg = {"list": list(libs), "none": None, "tuple": tuple(libs), "generator": (l for l in libs)}[case["lib_mode"]]
            expect_libs: List[str] = []
            if case["lib_mode"] != "none":
                for l in libs:
                    if l and l not in expect_libs:
                        expect_libs.append(l)
            try:
                pio.write_project(project, case["source"], case["port"], platform=case["platform"], board=case["board"], lib_deps=arg)
            except Exception as exc:
                return Outcome("violation", cls="write-raises", message=f"write_project raised {type(exc).__name__}: {exc}"[:300])
            after = listing(sandbox)
            for k, v in before.items():
                if after.get(k) != v:
                    return Outcome("violation", cls="outside", message=f"{k} outside the project changed")
            new = sorted(k for k in after if k not in before and k != "proj")
            if new != ["proj/platformio.ini", "proj/src", "proj/src/main.cpp"]:
                return Outcome("violation", cls="files", message=f"unexpected files {new}")
            if after["proj/src/main.cpp"] != case["source"].encode("utf-8"):
                return Outcome("violation", cls="main-cpp", message=f"write {step_no}: src/main.cpp is not the UTF-8 encoding of the given source")
            ini = configparser.ConfigParser(interpolation=None)
            try:
                ini.read_string(after["proj/platformio.ini"].decode("utf-8"))
            except (configparser.Error, UnicodeDecodeError) as exc:
                return Outcome("violation", cls="ini-parse", message=f"platformio.ini does not parse: {exc}"[:300])
            env = "env:" + re.sub(r"[^A-Za-z0-9_]+", "_", case["board"])
            if ini.sections() != [env]:
                return Outcome("violation", cls="ini-section", message=f"sections {ini.sections()}, expected [{env}]")
            sec = ini[env]
            want = {"platform": case["platform"], "board": case["board"], "framework": "arduino", "upload_port": case["port"]}
            keys = set(sec.keys())
            if keys - {"lib_deps"} != set(want):
                return Outcome("violation", cls="ini-keys", message=f"keys {sorted(keys)}")
            for k, v in want.items():
                if sec.get(k) != v:
                    return Outcome("violation", cls="ini-value", message=f"{k} = {sec.get(k)!r}, expected {v!r}")
            got_libs = [l.strip() for l in sec.get("lib_deps", "").splitlines() if l.strip()]
            if got_libs != [l.strip() for l in expect_libs]:
                return Outcome("violation", cls="lib-deps", message=f"lib_deps {got_libs}, expected {expect_libs}")
            return Outcome("ok", digest=sha(after["proj/platformio.ini"] + after["proj/src/main.cpp"])[:16], nontrivial=True,
                           probes={"libs": len(expect_libs), "nonascii": int(any(ord(c) > 127 for c in case["source"]))})

    @staticmethod
    def _sweep(pio) -> Outcome:
        registry = pio.SUPPORTED_PLATFORMS
        boards = sorted({b for bs in registry.values() for b in bs})
        platforms = sorted(registry)
        owners: Dict[str, List[str]] = {}
        for p, bs in registry.items():
            for b in bs:
                owners.setdefault(b, []).append(p)
        multi = {b: ps for b, ps in owners.items() if len(ps) != 1}
        if multi:
            return Outcome("violation", cls="registry", message=f"boards registered for more than one platform: {sorted(multi)[:5]}")
        board_names = set(boards)
        for b in boards[::7] + ["uno", "nano_every", "megaatmega2560"]:
            board_names.update(near_misses(b))
        platform_names = set(platforms)
        for p in platforms:
            platform_names.update(near_misses(p))
        platform_names.update(["atmelsam", "espressif32", "native"])
        checked = accepted = 0
        for p in sorted(platform_names):
            for b in sorted(board_names):
                want = p in registry and b in registry[p]
                try:
                    pio.validate_platform_board(p, b)
                    got = True
                except ValueError:
                    got = False
                except Exception as exc:
                    return Outcome("violation", cls="validate-exception", message=f"validate({p!r}, {b!r}) raised {type(exc).__name__}")
                checked += 1
                accepted += got
                if got != want:
                    return Outcome("violation", cls="validate", message=f"validate_platform_board({p!r}, {b!r}) {'accepted' if got else 'rejected'}, registry says {'valid' if want else 'invalid'}")
        return Outcome("ok", digest="sweep", nontrivial=True, probes={"pairs_checked": checked, "pairs_accepted": accepted})

    def shrink_candidates(self, case: dict) -> Iterable[dict]:
        if case.get("mode") != "write":
            return
        if "steps" not in case:
            case = {"mode": "write", "steps": [{k: v for k, v in case.items() if k != "mode"}], "stale": None}
        steps = case["steps"]
        if case.get("stale"):
            yield {**copy.deepcopy(case), "stale": None}
        if len(steps) > 1:
            for i in range(len(steps)):
                c = copy.deepcopy(case)
                del c["steps"][i]
                yield c
        for si, st in enumerate(steps):
            for i in range(len(st["libs"])):
                c = copy.deepcopy(case)
                del c["steps"][si]["libs"][i]
                yield c
            if st["port"] != "COM1":
                c = copy.deepcopy(case)
                c["steps"][si]["port"] = "COM1"
                yield c
            if len(steps) == 1 and st["source"]:
                c = copy.deepcopy(case)
                c["steps"][si]["source"] = ""
                yield c


# ====================================================================== C10


def promotion_script(rng) -> str:
    """Scripts rich in names that are first assigned inside branches / loops / try bodies and in
    injected housekeeping (several buttons, several animated LCDs, several ultrasonic sensors):
    the places where the transpiler iterates over sets."""

    lines = [
        "from Reduino import target", 'target("COM3")', "from Reduino.Communication import SerialMonitor",
        "from Reduino.Sensors import Button, Potentiometer, Ultrasonic", "from Reduino.Displays import LCD",
        'mon = SerialMonitor(9600, "COM3")', 'pot = Potentiometer("A0")',
    ]
    names = ["alpha", "beta", "gamma", "delta", "eps", "zeta", "eta", "theta", "iota", "kappa", "lam", "mu", "nu", "xi", "omi", "pi2", "rho", "sig", "tau", "ups"]
    rng.shuffle(names)
    pool = iter(names)

    def take(k):
        return [next(pool) for _ in range(k)]

    n_btn = rng.choice([0, 2, 3])
    for i in range(n_btn):
        lines.append(f"{rng.choice(['bt', 'key', 'sw'])}{i}{rng.choice('abcxyz')} = Button({2 + i})")
    btn_names = [l.split(" = ")[0] for l in lines if "= Button(" in l]
    n_us = rng.choice([0, 2])
    for i in range(n_us):
        lines.append(f"{rng.choice(['us', 'sonar', 'dist'])}{i}{rng.choice('abcxyz')} = Ultrasonic({20 + 2 * i}, {21 + 2 * i})")
    us_names = [l.split(" = ")[0] for l in lines if "= Ultrasonic(" in l]
    n_lcd = rng.choice([0, 2])
    for i in range(n_lcd):
        nm = f"{rng.choice(['lcd', 'panel', 'disp'])}{i}{rng.choice('abcxyz')}"
        lines.append(f"{nm} = LCD(i2c_addr={0x20 + i}, cols=16, rows=2)")
        lines.append(f'{nm}.animate("{rng.choice(["scroll", "blink", "typewriter", "bounce"])}", {i % 2}, "text{i}", speed_ms=100, loop=True)')

    def body(depth: int, k: int) -> List[str]:
        out = []
        for nm in take(k):
            kind = rng.choice(["int", "float", "str", "bool"])
            val = {"int": str(rng.randint(0, 9)), "float": "1.5", "str": '"s"', "bool": "True"}[kind]
            out.append("    " * depth + f"{nm} = {val}")
        return out

    for _ in range(rng.randint(1, 3)):
        shape = rng.choice(["if", "ifelse", "while", "for", "try"])
        try:
            if shape == "if":
                lines.append("if pot.read() > 5:")
                lines += body(1, rng.randint(2, 4))
            elif shape == "ifelse":
                k = rng.randint(2, 3)
                same = take(k)
                lines.append("if pot.read() > 5:")
                order1 = list(same)
                rng.shuffle(order1)
                lines += [f"    {nm} = 1" for nm in order1]
                lines.append("else:")
                order2 = list(same)
                rng.shuffle(order2)
                lines += [f"    {nm} = 2" for nm in order2]
            elif shape == "while":
                c = next(pool)
                lines.append(f"{c} = 0")
                lines.append(f"while {c} < 2:")
                lines.append(f"    {c} += 1")
                lines += body(1, rng.randint(2, 4))
                if rng.random() < 0.5:
                    lines.append("    if pot.read() > 100:")
                    lines += body(2, 2)
            elif shape == "for":
                lines.append(f"for idx{rng.randint(0, 9)} in range(3):")
                lines += body(1, rng.randint(2, 4))
            else:
                lines.append("try:")
                lines += body(1, rng.randint(2, 3))
                lines.append("except ValueError:")
                lines += body(1, 2)
        except StopIteration:
            break
    lines.append("while True:")
    for b in btn_names:
        lines.append(f"    if {b}.is_pressed():")
        lines.append(f'        mon.write("{b}")')
    for u in us_names:
        lines.append(f"    mon.write({u}.measure_distance())")
    try:
        lines.append("    if pot.read() > 7:")
        lines += body(2, rng.randint(2, 4))
    except StopIteration:
        lines.append("        pass")
    lines.append("    mon.write(pot.read())")
    return "\n".join(lines) + "\n"


def overload_script(rng) -> str:
    """Helper functions called with several argument-type signatures (one C++ overload per signature), in seeded
    call order, from setup, from the loop and from each other: the order and the set of emitted overloads must not
    depend on the hash seed or on earlier calls."""

    lines = [
        "from Reduino import target", 'target("COM3")', "from Reduino.Communication import SerialMonitor",
        'mon = SerialMonitor(9600, "COM3")',
    ]
    names = ["scale", "mix", "show", "pick", "blend", "clip", "emit2", "fold"]
    rng.shuffle(names)
    values = {"int": ["3", "0", "41"], "float": ["1.5", "0.25"], "str": ['"ab"', '"z"'], "bool": ["True", "False"]}
    helpers = []
    for name in names[: rng.randint(1, 4)]:
        nparams = rng.choice([1, 1, 2, 3])
        params = [f"{rng.choice('abcdpqxyz')}{i}" for i in range(nparams)]
        lines.append(f"def {name}({', '.join(params)}):")
        style = rng.random()
        if style < 0.4:
            lines.append(f"    mon.write({params[0]})")
            lines.append(f"    return {params[-1]}")
        elif style < 0.75:
            lines.append(f"    return {params[0]}")
        else:
            # returns of different kinds in different branches (the merged return type must not depend on set order)
            kinds = rng.sample(["[1, 2, 3]", "[0.5, 1.5]", "True", '["a"]', "[True]", "2.5", '"s"', "7"], 2)
            lines.append(f"    if {params[0]}:")
            lines.append(f"        return {kinds[0]}")
            lines.append(f"    return {kinds[1]}")
        helpers.append((name, nparams))
    calls = []
    for name, nparams in helpers:
        for _ in range(rng.randint(1, 5)):
            kinds = [rng.choice(["int", "float", "str", "bool", "int", "float"]) for _ in range(nparams)]
            args = ", ".join(rng.choice(values[k]) for k in kinds)
            calls.append(rng.choice([f"mon.write({name}({args}))", f"r{len(calls)} = {name}({args})", f"{name}({args})"]))
    rng.shuffle(calls)
    cut = rng.randint(0, len(calls))
    lines += calls[:cut]
    lines.append("while True:")
    lines += ["    " + c for c in calls[cut:]] or ["    pass"]
    lines.append('    mon.write("t")')
    return "\n".join(lines) + "\n"


class E9Determinism(Engine):
    name = "e9-determinism"
    property_id = "C10"
    components_real = ["transpile.parser.parse", "transpile.emitter.emit (fresh interpreters and shared interpreters)"]
    components_stub = []
    assumptions = ["thread-level interleavings are not explored: the property speaks of call sequences"]
    rule = (
        "each case = 4-8 seeded scripts (promotion-heavy shapes + core-language programs + actuator histories) "
        "transpiled in fresh interpreters under PYTHONHASHSEED in {0,1,2,3 + seeded values} and under seeded call "
        "histories in one interpreter (parse A, parse B, emit B, emit A; repeats; unrelated scripts in between); "
        "all sha256 digests of a script must be equal; non-trivial = every script accepted by the transpiler; "
        "distinct = digest of the script set"
    )

    def generate(self, rng, tier: str, avoid) -> dict:
        from dst.gen.actuators import ActGen
        from dst.gen.programs import GenOptions, ProgGen

        from dst.engines.e4_inputs import InputGen
        from dst.engines.e5_buzzer import BuzzGen
        from dst.engines.e6_lcd import LcdGen

        scripts = []
        for _ in range(rng.randint(4, 8)):
            r = rng.random()
            if r < 0.3:
                scripts.append(promotion_script(rng))
            elif r < 0.42:
                scripts.append(overload_script(rng))
            elif r < 0.6:
                # determinism does not depend on the firmware being right: half of the programs use every
                # generator feature, including those tied to open findings of other properties
                scripts.append(ProgGen(rng, avoid if rng.random() < 0.5 else [], GenOptions(max_stmts=rng.choice([8, 16, 24]))).generate())
            elif r < 0.7:
                scripts.append(ActGen(rng, avoid, tier).generate())
            elif r < 0.88:
                # LCD histories share the display name `lcd` (glyph/animation counters, helper templates)
                scripts.append(LcdGen(rng, avoid, tier).generate()["script"])
            elif r < 0.94:
                scripts.append(BuzzGen(rng, avoid, tier).generate()["script"])
            else:
                scripts.append(InputGen(rng, avoid, tier).generate()["script"])
        # rejected twins: the same script with one call of the wrong arity (or an unsupported statement) appended.
        # A transpilation that fails half-way must not leave anything behind that changes a later, valid one.
        expect_reject = []
        for i in range(len(scripts)):
            text = scripts[i]
            m = re.search(r"^def (\w+)\(([^)]*)\):", text, re.M)
            if m and rng.random() < 0.4:
                nargs = len([a for a in m.group(2).split(",") if a.strip()])
                bad = rng.choice([
                    f"zz = {m.group(1)}({', '.join(['1.5'] * (nargs + 1))})",
                    f"zz = {m.group(1)}({', '.join(['1'] * max(0, nargs - 1))})" if nargs else f"zz = {m.group(1)}(1, 2)",
                    f"{m.group(1)}({', '.join(['1.5'] * nargs)})\nzz = [1, [2]]",
                ])
                head, sep, tail = text.partition("while True:")
                twin = head + bad + "\n" + sep + tail if sep else text + bad + "\n"
                pos = rng.choice([i, len(scripts)])
                scripts.insert(pos, twin)
                expect_reject.append(pos)
                break
        # renamed twins: the same script with one device variable renamed throughout. Anything remembered between
        # transpilations under a key that leaves the variable's name out (pin, arguments, text of a rendered block)
        # would hand the twin the other script's identifiers.
        decl = re.compile(r"^(\w+) = (?:Buzzer|LCD|Led|RGBLed|Servo|DCMotor|Button|Potentiometer|Ultrasonic)\(", re.M)
        cands = [i for i, t in enumerate(scripts) if i not in expect_reject and decl.search(t)]
        rng.shuffle(cands)
        cands.sort(key=lambda i: 0 if re.search(r"\.(melody|sweep|animate|glyph|measure_distance)\(", scripts[i]) else 1)
        for i in cands[: rng.choice([0, 1, 1, 2])]:
            names = sorted(set(decl.findall(scripts[i])))
            nm = rng.choice(names)
            scripts.append(re.sub(rf"\b{re.escape(nm)}\b", nm + rng.choice(["_b", "2", "x"]), scripts[i]))
        n_seeds = 4 if tier == "quick" else 28
        hash_seeds = [0, 1, 2, 3] + [rng.randint(4, 4294967295) for _ in range(n_seeds)]
        n = len(scripts)
        histories = []
        # sequential reference
        histories.append([["both", i] for i in range(n)])
        # interleaved parse/emit, emits in another order, repeated calls
        order = list(range(n))
        rng.shuffle(order)
        h = [["parse", i] for i in order]
        order2 = list(order)
        rng.shuffle(order2)
        h += [["emit", i] for i in order2]
        h += [["emit", i] for i in order[:2]]
        h += [["both", rng.choice(order)] for _ in range(2)]
        histories.append(h)
        # reversed sequential
        histories.append([["both", i] for i in reversed(range(n))])
        return {"scripts": scripts, "hash_seeds": hash_seeds, "histories": histories, "expect_reject": expect_reject}

    def execute(self, case: dict) -> Outcome:
        import json
        import os
        import sys

        from dst.core.common import REPO, VERIF

        job_base = {"scripts": case["scripts"]}
        seen: Dict[str, Dict[str, str]] = {}
        runs = 0
        plan = []
        for hs in case["hash_seeds"]:
            plan.append((hs, 0))
        for k in range(1, len(case["histories"])):
            plan.append((case["hash_seeds"][k % len(case["hash_seeds"])], k))
        for hs, hidx in plan:
            env = dict(os.environ, PYTHONHASHSEED=str(hs), PYTHONPATH=str(VERIF), VERIF_REPO=str(REPO))
            job = dict(job_base, history=case["histories"][hidx])
            proc = subprocess.run(
                [sys.executable, "-m", "dst.pc.transpile_worker"], input=json.dumps(job), capture_output=True, text=True,
                env=env, cwd=str(VERIF), timeout=600,
            )
            if proc.returncode != 0:
                raise RuntimeError(f"transpile worker failed: {proc.stderr[-800:]}")
            runs += 1
            out = json.loads(proc.stdout)["digests"]
            for i, ds in out.items():
                for d in ds:
                    label = f"hashseed={hs} history={hidx}"
                    seen.setdefault(i, {}).setdefault(d, label)
        for i in sorted(seen, key=int):
            if len(seen[i]) > 1:
                variants = sorted(seen[i].items(), key=lambda kv: kv[1])
                return Outcome(
                    "violation",
                    cls="nondeterministic-output",
                    message=f"script {i} has {len(variants)} different outputs: " + "; ".join(f"{d[:10]} ({lab})" for d, lab in variants[:3]),
                    faults={"hash_seed": len(case["hash_seeds"]), "call_interleaving": len(case["histories"]) - 1},
                    detail={"script": case["scripts"][int(i)]},
                )
        twins = {str(i) for i in case.get("expect_reject", [])}
        accepted = all(not next(iter(v)).startswith("!") for i, v in seen.items() if i not in twins)
        return Outcome(
            "ok", digest=sha("".join(case["scripts"]))[:16], nontrivial=accepted,
            faults={"hash_seed": len(case["hash_seeds"]), "call_interleaving": len(case["histories"]) - 1,
                    "failed_transpile_in_history": len(twins)},
            probes={"scripts": len(case["scripts"]), "interpreters": runs},
        )

    def shrink_candidates(self, case: dict) -> Iterable[dict]:
        n = len(case["scripts"])
        if n > 2:
            for t in case.get("expect_reject", []):
                for j in range(n):
                    if j != t:
                        c = copy.deepcopy(case)
                        c["scripts"] = [case["scripts"][t], case["scripts"][j]]
                        c["histories"] = [[["both", 0], ["both", 1]], [["both", 1], ["both", 0]]]
                        c["expect_reject"] = [0]
                        yield c
        if n > 1:
            for i in range(n):
                c = copy.deepcopy(case)
                c["scripts"] = [case["scripts"][i]]
                c["expect_reject"] = []
                c["histories"] = [[["both", 0]], [["parse", 0], ["emit", 0], ["emit", 0], ["both", 0]]]
                yield c
        if len(case["hash_seeds"]) > 2:
            for keep in (case["hash_seeds"][:2], case["hash_seeds"][:4], case["hash_seeds"][len(case["hash_seeds"]) // 2 :]):
                c = copy.deepcopy(case)
                c["hash_seeds"] = list(keep)
                yield c
        if n == 1:
            lines = case["scripts"][0].splitlines()
            from dst.engines.e1_diff import _line_deletions

            for cand in _line_deletions(lines):
                c = copy.deepcopy(case)
                c["scripts"] = ["\n".join(cand) + "\n"]
                yield c


# ====================================================================== C11


class E9Hostile(Engine):
    name = "e9-hostile"
    property_id = "C11"
    components_real = ["transpile.parser.parse", "transpile.emitter.emit"]
    components_stub = [
        "every I/O seam as a tripwire: sys.addaudithook (open, os.*, subprocess, socket, import, exec), canary files, os.environ, cwd",
        "time: deterministic budget of traced interpreter steps + RLIMIT_CPU in a worker subprocess (big-int arithmetic produces no trace events)",
    ]
    assumptions = [
        "prompt termination = 400000 + 3000*len(text) traced lines inside Reduino code and 20 s of CPU for a batch of 20 texts",
        "SyntaxError is accepted only for text that ast.parse itself rejects",
    ]
    rule = (
        "each case = 20 texts: hostile expressions (code execution, file/process/network/env access, huge arithmetic, "
        "deep nesting, wrong types) planted in ~60 argument positions the parser folds or re-parses; mutated valid "
        "scripts; byte noise. Judged per text: result is str or ValueError (SyntaxError only if not Python), no audit "
        "event, no canary, no env/cwd/module-state change, within the step and CPU budget; non-trivial = at least one "
        "text reached the emitter; distinct = digest of the text set"
    )

    def generate(self, rng, tier: str, avoid) -> dict:
        from dst.gen.hostile import growth_chain, helper_chain, hostile_texts, mutate_text, noise, padded_statement, rejection_texts, runtime_arg_text, wild_script
        from dst.gen.programs import GenOptions, ProgGen

        canary = "/verif/.work/canary/HIT"
        texts = [t["text"] for t in hostile_texts(rng, canary, 6)]
        for _ in range(3):
            base = ProgGen(rng, (), GenOptions(max_stmts=rng.choice([6, 12, 20]))).generate()
            texts.append(mutate_text(rng, base))
        texts.append(noise(rng))
        texts += rejection_texts(rng, 3)
        # legal scripts that stress the transpiler itself: constants that double on every line, and scripts of the
        # supported subset with undefined run-time behaviour (an internal error must still not escape)
        texts.append(growth_chain(rng))
        texts += [wild_script(rng) for _ in range(3)]
        texts.append(padded_statement(rng))
        texts += [runtime_arg_text(rng) for _ in range(2)]
        if rng.random() < 0.5:
            texts.append(helper_chain(rng))
        skip = set(avoid)
        if "hostile_bigint" in skip:
            texts = [t for t in texts if not re.search(r"\*\*\s*\d+\s*\*\*|<<\s*10\s*\*\*|\*\*\s*7777|\* 10\*\*10|10\*\*8", t)] or ["x = 1\n"]
        return {"texts": texts}

    def execute(self, case: dict) -> Outcome:
        import ast as pyast
        import json
        import os
        import sys

        from dst.core.common import REPO, VERIF, WORK

        canary_dir = str(WORK / "canary")
        os.makedirs(canary_dir, exist_ok=True)
        texts = [t.replace("/verif/.work/canary/HIT", os.path.join(canary_dir, f"hit{os.getpid()}")) for t in case["texts"]]
        env = dict(os.environ, PYTHONPATH=str(VERIF), VERIF_REPO=str(REPO), PYTHONHASHSEED="0")
        env.pop("REDUINO_VERIF", None)
        job = {"texts": texts, "canary_dir": os.path.join(canary_dir, f"d{os.getpid()}"), "cpu_s": 20 if len(texts) > 1 else 8}
        texts = [t.replace(os.path.join(canary_dir, f"hit{os.getpid()}"), os.path.join(job["canary_dir"], "hit")) for t in texts]
        job["texts"] = texts
        proc = subprocess.run(
            [sys.executable, "-m", "dst.pc.hostile_worker"], input=json.dumps(job), capture_output=True, text=True,
            env=env, cwd=str(VERIF), timeout=300,
        )
        shutil.rmtree(job["canary_dir"], ignore_errors=True)
        started = -1
        results: Dict[int, dict] = {}
        for line in proc.stdout.splitlines():
            if line.startswith("START "):
                started = int(line.split()[1])
            elif line.startswith("DONE "):
                _, i, payload = line.split(" ", 2)
                results[int(i)] = json.loads(payload)
        reached_emit = 0
        kinds: Dict[str, int] = {}
        for i, text in enumerate(texts):
            res = results.get(i)
            if res is None:
                if i == started:
                    how = "killed by the CPU limit" if proc.returncode in (-24, -9) else f"worker died with status {proc.returncode}"
                    return self._bad(i, "hang-or-crash", f"transpiling did not terminate promptly ({how}): {text[-120:]!r} {proc.stderr[-200:]}")
                if started < i and proc.returncode != 0:
                    raise RuntimeError(f"hostile worker failed before text {i}: {proc.stderr[-600:]}")
                continue
            if res["events"]:
                return self._bad(i, "side-effect", f"audit events during transpilation: {res['events'][:3]}")
            if res["canary"]:
                return self._bad(i, "code-executed", f"canary file created: {res['canary']}")
            if res["env_changed"] or res["cwd_changed"]:
                return self._bad(i, "environment", "os.environ or the working directory changed")
            if res["state_changed"]:
                return self._bad(i, "module-state", f"module-level state changed: {res['state_changed']}")
            kind = res["kind"]
            kinds[kind if kind != "exc" else res["exc_type"]] = kinds.get(kind if kind != "exc" else res["exc_type"], 0) + 1
            if kind == "str":
                reached_emit += 1
                continue
            if kind == "budget":
                return self._bad(i, "step-budget", f"more than {400000 + 3000 * len(text)} traced steps for {len(text)} characters")
            if kind != "exc":
                return self._bad(i, "result-type", kind)
            mro = res["exc_mro"]
            if "ValueError" in mro:
                continue
            if "SyntaxError" in mro:
                try:
                    pyast.parse(text)
                except (SyntaxError, ValueError, RecursionError, MemoryError):
                    continue
                return self._bad(i, "exception-type/SyntaxError", f"SyntaxError for text that is valid Python: {res['exc_msg']}")
            if "RecursionError" in mro or "MemoryError" in mro:
                # accepted only when CPython itself gives up on the whole text in the same way
                try:
                    pyast.parse(text)
                except (RecursionError, MemoryError):
                    continue
                except (SyntaxError, ValueError):
                    pass
            return self._bad(i, f"exception-type/{res['exc_type']}", f"internal error {res['exc_type']}: {res['exc_msg']}")
        return Outcome("ok", digest=sha("\x00".join(case["texts"]))[:16], nontrivial=reached_emit > 0,
                       probes={f"result_{k}": v for k, v in kinds.items()})

    def _bad(self, i, cls, message) -> Outcome:
        return Outcome("violation", cls=cls, message=f"text {i}: {message}"[:500], detail={"text_index": i})

    def shrink_candidates(self, case: dict) -> Iterable[dict]:
        texts = case["texts"]
        if len(texts) > 1:
            for t in texts:
                yield {**copy.deepcopy(case), "texts": [t]}
            return
        lines = texts[0].split("\n")
        for i in range(len(lines) - 1, -1, -1):
            cand = lines[:i] + lines[i + 1 :]
            yield {**copy.deepcopy(case), "texts": ["\n".join(cand)]}
