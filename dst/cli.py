"""./check <PROPERTY> <quick|thorough> [--replay FILE] [--runs N] [--jobs N] [--no-shrink]

Exit codes: 0 the property held on everything explored (known findings are listed),
            1 a violation was found (line "VIOLATION property=<id> replay=<path>"),
            2 harness error (never a verdict).
"""

from __future__ import annotations

import argparse
import json
import os
import subprocess
import sys
import time
import traceback
from pathlib import Path
from typing import Dict, List, Optional

from dst.core import common
from dst.core.common import EVIDENCE_DIR, VERIF, base_seed
from dst.core.runner import (
    BatchResult,
    Engine,
    HarnessError,
    Outcome,
    avoid_set,
    execute_case,
    load_known_findings,
    minimise,
    run_batch,
    write_replay,
)


def _engines_for(property_id: str):
    from dst.plans import PLANS

    if property_id not in PLANS:
        raise HarnessError(f"no plan for property {property_id}")
    return PLANS[property_id]


def _engine_by_name(property_id: str, name: str) -> Engine:
    from dst.plans import all_engines

    for eng in all_engines():
        if eng.name == name:
            return eng
    raise HarnessError(f"unknown engine {name!r}")


def replay(property_id: str, path: str) -> int:
    payload = json.loads(Path(path).read_text())
    case = payload["case"]
    engine = _engine_by_name(property_id, case["engine"])
    out = execute_case(engine, case)
    print(f"replay engine={engine.name} status={out.status} cls={out.cls}")
    if out.message:
        print("  " + out.message)
    if out.status == "violation":
        print(f"VIOLATION property={property_id} replay={path}")
        return 1
    return 0


def _witness_phase(property_id: str) -> tuple:
    """Replay the witnesses of this property's recorded findings."""

    known_lines: List[str] = []
    violations: List[str] = []
    reproduced = 0
    for finding in load_known_findings():
        if finding.get("property") != property_id:
            continue
        wpath = VERIF / finding["witness"]
        if not wpath.exists():
            raise HarnessError(f"witness file missing: {wpath}")
        payload = json.loads(wpath.read_text())
        case = payload["case"]
        engine = _engine_by_name(property_id, case["engine"])
        out = execute_case(engine, case)
        status = finding.get("status")
        if status == "open":
            if out.status == "violation" and out.cls == finding.get("cls"):
                known_lines.append(f"KNOWN-FINDING: property={property_id} {finding['id']}: {finding['what']}")
                reproduced += 1
            elif out.status == "violation":
                violations.append(
                    f"witness of {finding['id']} now fails differently: {out.cls}: {out.message} "
                    f"(recorded class {finding.get('cls')})|{wpath}"
                )
            # passing witness: the defect is gone; stay silent
        elif status == "fixed":
            if out.status == "violation":
                violations.append(f"fixed finding {finding['id']} is back: {out.cls}: {out.message}|{wpath}")
    return known_lines, violations, reproduced


def run_check(property_id: str, tier: str, args) -> int:
    t0 = time.time()
    seed = base_seed()
    plan = _engines_for(property_id)
    print(f"check property={property_id} tier={tier} VERIF_SEED={seed} repo={common.REPO}")
    known_lines, witness_violations, reproduced = _witness_phase(property_id)
    for line in known_lines:
        print(line)
    avoid = avoid_set(property_id)
    if args.avoid:
        from dst.gen.programs import ALL_FEATURES

        extra = ALL_FEATURES if args.avoid == 'all' else args.avoid.split(',')
        avoid = sorted(set(avoid) | set(extra))
    if args.enable:
        avoid = sorted(set(avoid) - set(args.enable.split(',')))

    batches: List[BatchResult] = []
    engines: List[Engine] = []
    violation_paths: List[str] = []
    for w in witness_violations:
        msg, _, wpath = w.rpartition("|")
        print("  " + msg)
        violation_paths.append(wpath)
    harness_errors: List[str] = []
    for entry in plan:
        engine: Engine = entry["engine"]
        runs = entry[tier] if args.runs is None else args.runs
        budget = entry.get(f"{tier}_wall_s")
        res = run_batch(engine, seed, runs, tier=tier, avoid=avoid, jobs=args.jobs, wall_budget_s=budget, stop_on_violation=not args.keep_going)
        if args.keep_going and res.violations:
            hist = {}
            for _i, o, _c in res.violations:
                hist[o.get('cls')] = hist.get(o.get('cls'), 0) + 1
            print('  violation classes:', sorted(hist.items(), key=lambda kv: -kv[1]))
        batches.append(res)
        engines.append(engine)
        rate = res.runs / res.wall_s * 3600 if res.wall_s > 0 else 0
        print(
            f"  engine={engine.name} runs={res.runs} ok={res.ok} rejected={res.rejected} discard={res.discards} "
            f"violations={len(res.violations)} distinct={len(res.digests)} wall={res.wall_s:.1f}s ({rate:.0f} runs/h)"
        )
        harness_errors.extend(res.harness_errors)
        for idx, outcome, case in res.violations[:2]:
            cls = outcome.get("cls", "")
            final_case, final_outcome = case, outcome
            if not args.no_shrink:
                small, steps = minimise(engine, case, cls)
                chk = execute_case(engine, small)
                if chk.status == "violation":
                    final_case, final_outcome = small, chk.to_json()
                    final_case["minimised_from_run"] = idx
                    final_case["shrink_steps"] = steps
            path = write_replay(engine, final_case, final_outcome, f"{seed}-{idx}")
            # a violation must replay in a fresh interpreter, otherwise it is a harness problem
            proc = subprocess.run(
                [sys.executable, "-m", "dst.cli", property_id, tier, "--replay", str(path)],
                capture_output=True,
                text=True,
                cwd=str(VERIF),
            )
            if proc.returncode != 1:
                harness_errors.append(
                    f"violation of run {idx} did not replay (exit {proc.returncode}): {proc.stdout[-500:]} {proc.stderr[-500:]}"
                )
                continue
            print(f"  violation run={idx} class={final_outcome.get('cls')}: {final_outcome.get('message')}")
            violation_paths.append(str(path))
        if res.violations:
            break

    wall = time.time() - t0
    write_evidence(property_id, tier, seed, engines, batches, wall, len(violation_paths), reproduced, avoid)
    if harness_errors:
        for h in harness_errors[:5]:
            print("HARNESS-ERROR: " + h, file=sys.stderr)
        return 2
    if violation_paths:
        for p in violation_paths:
            print(f"VIOLATION property={property_id} replay={p}")
        return 1
    print(f"OK property={property_id} tier={tier} wall={wall:.1f}s")
    return 0


def write_evidence(property_id, tier, seed, engines, batches, wall, violations, reproduced, avoid) -> None:
    from dst.plans import LEVELS

    EVIDENCE_DIR.mkdir(parents=True, exist_ok=True)
    evaluations = sum(b.runs for b in batches)
    distinct = sum(len(b.digests) for b in batches)
    faults: Dict[str, int] = {}
    probes: Dict[str, int] = {}
    samples: List[object] = []
    per_engine = []
    sim_ms = 0.0
    for eng, b in zip(engines, batches):
        for k, v in b.faults.items():
            faults[k] = faults.get(k, 0) + v
        for k, v in b.probes.items():
            probes[f"{eng.name}:{k}"] = probes.get(f"{eng.name}:{k}", 0) + v
        samples.extend(b.samples[:2])
        sim_ms += b.sim_ms
        per_engine.append(
            {
                "engine": eng.name,
                "runs": b.runs,
                "ok": b.ok,
                "rejected_by_transpiler": b.rejected,
                "discarded_not_well_defined": b.discards,
                "violations": len(b.violations),
                "distinct_nontrivial": len(b.digests),
                "wall_s": round(b.wall_s, 2),
                "runs_per_hour": int(b.runs / b.wall_s * 3600) if b.wall_s > 0 else 0,
                "stopped_early": b.stopped_early,
                "rule": eng.rule,
            }
        )
    real = sorted({c for e in engines for c in e.components_real})
    stub = sorted({c for e in engines for c in e.components_stub})
    assumptions = sorted({a for e in engines for a in e.assumptions})
    level = LEVELS.get(property_id, "exploration")
    evidence = {
        "property_id": property_id,
        "tier": tier,
        "seed": seed,
        "level": level,
        "coverage": {
            "evaluations": evaluations,
            "distinct_nontrivial": distinct,
            "rule": " || ".join(f"[{e.name}] {e.rule}" for e in engines),
            "samples": samples[:4] or [{"note": "no sample kept"}],
            "engines": per_engine,
            "fault_kinds_fired": faults,
            "reach_probes": probes,
            "simulated_time_ms": round(sim_ms, 1),
            "runs_per_hour": int(evaluations / wall * 3600) if wall > 0 else 0,
            "seeds": f"VERIF_SEED={seed}; run i of engine E uses sha256(seed, E, i)",
            "components_real": real,
            "components_stub": stub,
            "known_findings_reproduced": reproduced,
            "generator_features_avoided": list(avoid),
            "exhaustive": False,
        },
        "assumptions": assumptions,
        "wall_s": round(wall, 2),
        "violations": violations,
    }
    (EVIDENCE_DIR / f"{property_id}.json").write_text(json.dumps(evidence, indent=1, sort_keys=True))


def main(argv=None) -> int:
    parser = argparse.ArgumentParser(prog="check")
    parser.add_argument("property")
    parser.add_argument("tier", nargs="?", default=None, choices=["quick", "thorough"])
    parser.add_argument("--replay")
    parser.add_argument("--runs", type=int)
    parser.add_argument("--jobs", type=int)
    parser.add_argument("--no-shrink", action="store_true")
    parser.add_argument("--keep-going", action="store_true", help="development only: do not stop at the first violating chunk")
    parser.add_argument("--enable", help="development only: features to switch back on")
    parser.add_argument("--avoid", help="development only: extra generator features to switch off (or all)")
    args = parser.parse_args(argv)
    tier = args.tier or common.tier()
    os.environ["VERIF_TIER"] = tier
    try:
        if args.replay:
            return replay(args.property, args.replay)
        return run_check(args.property, tier, args)
    except HarnessError as exc:
        print(f"HARNESS-ERROR: {exc}", file=sys.stderr)
        return 2
    except Exception:
        traceback.print_exc()
        print("HARNESS-ERROR: unexpected exception in the check driver", file=sys.stderr)
        return 2


if __name__ == "__main__":
    sys.exit(main())
