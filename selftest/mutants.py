#!/venv/bin/python
"""Sensitivity self-test: planted bugs (DESIGN.md Appendix A) applied to a scratch worktree of /repo,
never to /repo itself; each must be caught by the quick tier of the named property.

usage: selftest/mutants.py [name-substring ...]     (needs a scratch worktree: git -C /repo worktree add /tmp/mut HEAD)
"""
import json, os, subprocess, sys, time
from pathlib import Path

ROOT = Path(__file__).resolve().parents[1]
MUT = Path(os.environ.get("VERIF_MUT_DIR", "/tmp/mut"))
P = "src/Reduino/transpile/parser.py"
E = "src/Reduino/transpile/emitter.py"

MUTANTS = [
    ("cmp-gt-ge", P, '    ast.Gt: ">",', '    ast.Gt: ">=",', "C01"),
    ("for-le", E, "{node.var_name} < {limit_expr}; ++{node.var_name}", "{node.var_name} <= {limit_expr}; ++{node.var_name}", "C01"),
    ("else-dropped", E, "            if node.else_body:\n                lines.append(f\"{indent}else {{\")", "            if node.else_body and False:\n                lines.append(f\"{indent}else {{\")", "C01"),
    ("break-dropped", E, '            lines.append(f"{indent}break;")', '            pass', "C01"),
    ("swap-no-temps", P, "                nodes.append(VarAssign(name=name, expr=tmp_names[idx]))", "                nodes.append(VarAssign(name=name, expr=right_data[idx][1]))", "C01"),
    ("return-join-int", P, '    if "float" in unique:\n        return "float"\n\n    if unique == {"bool"}:', '    if "float" in unique and "int" not in unique:\n        return "float"\n\n    if unique == {"bool"}:', "C02"),
    ("ifexp-body-type", P, "        if body_type == else_type:\n            return body_type\n", "        return body_type\n", "C02"),
    ("fold-names", P, "        if expr_ast is not None and not _expr_has_name(expr_ast):\n            try:\n                value = _eval_const(arg_src, vars)\n            except Exception:\n                pass\n            else:\n                if isinstance(value, bool):\n                    return 1 if value else 0\n                if isinstance(value, (int, float)):\n                    return int(value)\n        return _to_c_expr(arg_src, vars, ctx)\n\n    def _resolve_float_arg", "        if expr_ast is not None:\n            try:\n                value = _eval_const(arg_src, vars)\n            except Exception:\n                pass\n            else:\n                if isinstance(value, bool):\n                    return 1 if value else 0\n                if isinstance(value, (int, float)):\n                    return int(value)\n        return _to_c_expr(arg_src, vars, ctx)\n\n    def _resolve_float_arg", "C03"),
    ("blink-le", E, 'lines.append(f"{indent}  for (int __redu_i = 0; __redu_i < __redu_times; ++__redu_i) {{")\n            lines.append(f"{indent}    {state_var} = true;")', 'lines.append(f"{indent}  for (int __redu_i = 0; __redu_i <= __redu_times; ++__redu_i) {{")\n            lines.append(f"{indent}    {state_var} = true;")', "C04"),
    ("fadein-final", E, '            lines.append(f"{indent}  analogWrite({pin_code}, 255);")\n', '', "C04"),
    ("rgb-blink-restore", E, '            lines.append(f"{indent}  {red_var} = __redu_original_red;")', '            lines.append(f"{indent}  {red_var} = {red_var};")', "C04"),
    ("servo-upper-clamp", E, '                f"{indent}  if (__redu_angle > {max_angle_var}) {{ __redu_angle = {max_angle_var}; }}"\n', '                f"{indent}  if (__redu_angle > {max_angle_var}) {{ }}"\n', "C04"),
    ("ledoff-state", E, '            lines.append(f"{indent}{state_var} = false;")\n            lines.append(f"{indent}{brightness_var} = 0;")\n            lines.append(f"{indent}digitalWrite({pin_code}, LOW);")\n            continue', '            lines.append(f"{indent}{brightness_var} = 0;")\n            lines.append(f"{indent}digitalWrite({pin_code}, LOW);")\n            continue', "C04"),
    ("led-pinmode", E, '                    lines.append(f"{indent}pinMode({pin_expr}, OUTPUT);")\n            continue\n\n        if isinstance(node, BuzzerDecl):', '                    pass\n            continue\n\n        if isinstance(node, BuzzerDecl):', "C05"),
    ("poll-at-end", P, "        loop_body = button_polls + loop_body", "        loop_body = loop_body + button_polls", "C05,C15"),
    ("main-break-guard", P, '            if main_loop and loop_depth == 1:\n                raise ValueError("cannot break out of the main loop()")', '            if False:\n                raise ValueError("cannot break out of the main loop()")', "C05"),
    ("strip-comment-quotes", P, "        if char == \"#\" and not in_single and not in_double:", "        if char == \"#\":", "C07"),
    ("blank-ends-block", P, '        if not lines[i].strip() or lines[i].lstrip().startswith("#"):\n            block.append(lines[i]); i += 1; continue', '        if lines[i].lstrip().startswith("#"):\n            block.append(lines[i]); i += 1; continue\n        if not lines[i].strip():\n            break', "C07"),
    ("setcolor-swap", P, '                green_arg = _extract_call_argument(args_src, keyword="green")\n                if green_arg is None:\n                    green_arg = _extract_call_argument(args_src, position=1)\n                blue_arg = _extract_call_argument(args_src, keyword="blue")\n                if blue_arg is None:\n                    blue_arg = _extract_call_argument(args_src, position=2)\n                if red_arg is None or green_arg is None or blue_arg is None:\n                    raise ValueError("set_color requires', '                green_arg = _extract_call_argument(args_src, keyword="green")\n                if green_arg is None:\n                    green_arg = _extract_call_argument(args_src, position=2)\n                blue_arg = _extract_call_argument(args_src, keyword="blue")\n                if blue_arg is None:\n                    blue_arg = _extract_call_argument(args_src, position=1)\n                if red_arg is None or green_arg is None or blue_arg is None:\n                    raise ValueError("set_color requires', "C08,C04"),
    ("blink-times-kw", P, '            times_arg = _extract_call_argument(args_src, keyword="times")\n            if times_arg is None:\n                times_arg = _extract_call_argument(args_src, position=1)\n            duration = ', '            times_arg = _extract_call_argument(args_src, keyword="time")\n            if times_arg is None:\n                times_arg = _extract_call_argument(args_src, position=1)\n            duration = ', "C08"),
    ("neg-index", E, "T &__redu_list_get(__redu_list<T> &list, int index) {\nif (index < 0) {\n    index += static_cast<int>(list.size);\n  }", "T &__redu_list_get(__redu_list<T> &list, int index) {\nif (index < -1) {\n    index += static_cast<int>(list.size);\n  }", "C09,C01"),
    ("append-no-delete", E, "  next[list.size] = value;\n  delete[] list.data;", "  next[list.size] = value;", "C09"),
    ("tick-unsorted", P, "        for name in sorted(ctx.get(\"lcd_tick_names\", set()))", "        for name in ctx.get(\"lcd_tick_names\", set())", "C10"),
    ("tmp-counter-global", P, "            tmp_name = f\"__tmp_assign_{ctx.setdefault('tmp_counter', 0)}\"\n            ctx[\"tmp_counter\"] = ctx.get(\"tmp_counter\", 0) + 1", "            _GLOBAL_TMP[0] += 1\n            tmp_name = f\"__tmp_assign_{_GLOBAL_TMP[0]}\"", "C10"),
    ("eval-fallback", P, '        raise ValueError("unsupported")\n\n    def _apply_bin', '        return eval(compile(ast.Expression(n), "<x>", "eval"), {}, {})\n\n    def _apply_bin', "C11"),
    ("typeerror", P, '            raise ValueError("for-range loops require a single range(count) argument")', '            raise TypeError("for-range loops require a single range(count) argument")', "C11"),
    ("pio-check-dropped", "src/Reduino/toolchain/pio.py", '    subprocess.run(["pio", "run"], cwd=project_dir, check=True)', '    subprocess.run(["pio", "run"], cwd=project_dir)', "C12"),
    ("upload-before-build", "src/Reduino/toolchain/pio.py", '    subprocess.run(["pio", "run"], cwd=project_dir, check=True)\n    subprocess.run(["pio", "run", "-t", "upload"], cwd=project_dir, check=True)', '    subprocess.run(["pio", "run", "-t", "upload"], cwd=project_dir, check=True)\n    subprocess.run(["pio", "run"], cwd=project_dir, check=True)', "C12"),
    ("upload-always", "src/Reduino/__init__.py", "    if upload:\n        compile_upload(tmp)", "    compile_upload(tmp)", "C12"),
    ("validate-ignores-platform", "src/Reduino/toolchain/pio.py", "    if required_platform != platform:", "    if False:", "C13,C12"),
    ("dedup-set", "src/Reduino/toolchain/pio.py", "    unique: List[str] = []\n    for entry in libraries:\n        if not entry:\n            continue\n        if entry not in unique:\n            unique.append(entry)", "    unique = sorted({e for e in libraries if e})", "C13"),
    ("env-not-sanitised", "src/Reduino/toolchain/pio.py", '    return re.sub(r"[^A-Za-z0-9_]+", "_", board)', "    return board", "C13"),
    ("sonar-50ms", E, "= 60UL;", "= 50UL;", "C15"),
    ("sonar-4-attempts", E, "= 3U;", "= 4U;", "C15"),
    ("poll-no-prev", E, '            lines.append(f"{indent}{prev_var} = {next_var};")\n', '', "C15"),
    ("is-pressed-direct", P, '                        return f"(__redu_button_value_{owner_node.id} ? 1 : 0)"', '                        return f"(digitalRead({ctx.get(\'button_pins\', {}).get(owner_node.id)}) == HIGH ? 1 : 0)"', "C15"),
    ("sonar-0034", E, "* 0.0343f) / 2.0f;", "* 0.034f) / 2.0f;", "C15"),
    ("beep-gap-after-last", E, 'lines.append(f"{indent}    if ((__redu_i + 1) < __redu_times && __redu_off_ms > 0UL) {{")', 'lines.append(f"{indent}    if (__redu_off_ms > 0UL) {{")', "C16"),
    ("sweep-steps", E, "(static_cast<float>(__redu_i) / (static_cast<float>(__redu_steps) - 1.0f));", "(static_cast<float>(__redu_i) / static_cast<float>(__redu_steps));", "C16"),
    ("melody-note", E, '"sequence": [(523.25, 0.5), (659.25, 0.5), (783.99, 1.0)],', '"sequence": [(523.25, 0.5), (659.25, 0.5), (783.99, 0.75)],', "C16"),
    ("playtone-no-notone", E, '                lines.append(f"{indent}  if (__redu_freq > 0.0f) {{")\n                lines.append(f"{indent}    noTone({pin_code});")\n                lines.append(f"{indent}  }}")\n', '', "C16"),
    ("center-align", E, "    offset = col + room / 2;", "    offset = col + (room + 1) / 2;", "C17"),
    ("truncate-plus-one", E, "  if (content.length() > available) {\n    content = content.substring(0, available);\n  }\n  int offset = col;", "  if (content.length() > available + 1) {\n    content = content.substring(0, available + 1);\n  }\n  int offset = col;", "C17"),
    ("display-off-backlight", E, '                        lines.append(f"{indent}{state_var} = false;")\n                        lines.append(f"{indent}analogWrite({backlight_pin}, 0);")', '                        lines.append(f"{indent}{state_var} = false;")', "C17"),
    ("tick-delay", E, "  state.last_step = now;\n  state.show = !state.show;", "  state.last_step = now;\n  delay(state.speed_ms);\n  state.show = !state.show;", "C18"),
    ("scroll-never-stops", E, "    if (state.loop) {\n      state.offset = 0;\n    } else {\n      state.active = false;\n    }\n  }\n}\n\ntemplate <typename T>\nvoid __redu_lcd_start_blink", "    state.offset = 0;\n  }\n}\n\ntemplate <typename T>\nvoid __redu_lcd_start_blink", "C18"),
    ("host-brightness-256", "src/Reduino/Actuators/Led.py", "        if not 0 <= value <= 255:", "        if not 0 <= value <= 256:", "C19"),
    ("host-invert-sets", "src/Reduino/Actuators/DCMotor.py", "        self._inverted = not self._inverted", "        self._inverted = True", "C19"),
    ("host-ramp-19", "src/Reduino/Actuators/DCMotor.py", "    _RAMP_STEPS = 20", "    _RAMP_STEPS = 19", "C19"),
    ("host-setcolor-early", "src/Reduino/Actuators/RGBLed.py", '        colour = (\n            self._validate_component(red, "red"),\n            self._validate_component(green, "green"),\n            self._validate_component(blue, "blue"),\n        )\n        self._color = colour\n        self._update_state(colour)', '        r_, g_ = self._validate_component(red, "red"), self._validate_component(green, "green")\n        self._color = (r_, g_, self._color[2])\n        colour = (r_, g_, self._validate_component(blue, "blue"))\n        self._color = colour\n        self._update_state(colour)', "C19"),
    ("core-pin-str", "src/Reduino/Core/__init__.py", "    if isinstance(pin, str) and pin.isdigit():\n        return int(pin)", "    if isinstance(pin, str) and pin.isdigit() and False:\n        return int(pin)", "C20"),
    ("map-plus", "src/Reduino/Utils/__init__.py", "    ratio = (value - from_low) / (from_high - from_low)", "    ratio = (value - from_low) / (from_high + from_low)", "C20"),
    ("serial-no-newline", "src/Reduino/Communication/SerialMonitor.py", "            payload = (text + self.newline).encode(\"utf-8\")", "            payload = text.encode(\"utf-8\")", "C20"),
]


def sh(cmd, cwd=None, env=None):
    p = subprocess.run(cmd, shell=True, cwd=cwd, env=env, capture_output=True, text=True)
    return p.returncode, p.stdout + p.stderr


def main():
    want = sys.argv[1:]
    head = sh("git -C /repo rev-parse HEAD")[1].strip()
    sh(f"git checkout -q --detach {head}", cwd=MUT)
    results = []
    for name, path, old, new, props in MUTANTS:
        if want and not any(w in name for w in want):
            continue
        sh("git checkout -q -- .", cwd=MUT)
        f = MUT / path
        text = f.read_text()
        if text.count(old) < 1:
            results.append((name, "PATTERN-NOT-FOUND", "", props))
            print(name, "PATTERN-NOT-FOUND")
            continue
        text = text.replace(old, new, 1)
        if name == "tmp-counter-global":
            text = text.replace("ANALOG_PIN_RE = re.compile", "_GLOBAL_TMP = [0]\nANALOG_PIN_RE = re.compile", 1)
        f.write_text(text)
        env = dict(os.environ, PYTHONPATH=str(MUT / "src"))
        env.pop("REDUINO_VERIF", None)
        rc, out = sh("/venv/bin/python -m pytest -q -x -p no:cacheprovider 2>&1 | tail -1", cwd=MUT, env=env)
        tests_ok = "failed" not in out and "error" not in out.lower()
        caught = []
        lines = []
        for p in props.split(","):
            t0 = time.time()
            rc, out = sh(f"./check {p} quick", cwd=ROOT, env=dict(os.environ, VERIF_REPO=str(MUT)))
            if rc == 1:
                caught.append(p)
            elif rc != 0:
                caught.append(f"{p}:exit{rc}")
            lines += [l.strip()[:150] for l in out.splitlines() if "violation run" in l or "fixed finding" in l][:1]
        status = "caught" if any(not c.endswith(tuple("0123456789")) or True for c in caught) and caught else "MISSED"
        results.append((name, status, ",".join(caught), props))
        print(f"{name:28s} tests={'pass' if tests_ok else 'FAIL'} {status:7s} by={','.join(caught) or '-'} want={props}  {lines[0] if lines else ''}", flush=True)
    sh("git checkout -q -- .", cwd=MUT)
    missed = [r for r in results if r[1] != "caught"]
    print(f"{len(results) - len(missed)}/{len(results)} caught; missed: {[r[0] for r in missed]}")
    return 1 if missed else 0


if __name__ == "__main__":
    sys.exit(main())
