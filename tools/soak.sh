#!/bin/bash
# usage: tools/soak.sh "<props>" "<seeds>"  -- runs quick checks under several VERIF_SEED values, prints non-OK results
cd "$(dirname "$0")/.." || exit 2
# under `vp run --with-repo` the checks run against the snapshot of /repo, so that edits to /repo do not disturb a soak
if [ -n "$VP_RUN_REPO" ]; then export VERIF_REPO="$VP_RUN_REPO"; fi
./setup.sh >/dev/null 2>&1
props=${1:-"C01 C04 C05 C09 C10 C11 C12 C13 C19 C20"}
seeds=${2:-"1 2 3 4 5"}
for s in $seeds; do
  for p in $props; do
    out=$(VERIF_SEED=$s ./check $p quick 2>&1)
    rc=$?
    if [ $rc -ne 0 ]; then
      echo "=== seed=$s prop=$p exit=$rc"
      echo "$out" | grep -E "violation run|VIOLATION|HARNESS|Traceback|Error" | head -8
      for f in $(echo "$out" | grep -oE "replay=\S+" | cut -d= -f2); do cp "$f" "soak-$(basename $f)" 2>/dev/null; done
    else
      echo "ok seed=$s prop=$p"
    fi
  done
done
