#!/venv/bin/python
"""Evaluate a seeded change produced by a sub-agent in a scratch worktree.

usage: tools/evalmut.py /tmp/mw/<id> <seeded-id> P1[,P2,...] [--tier quick]
 1. tests pass with the change (PYTHONPATH=<dir>/src)
 2. demo.py fails with the change, passes without it (git stash)
 3. run ./check <P> quick with VERIF_REPO=<dir> for every listed property
 4. store patch.diff, demo.py, meta.json under /verif/seeded/<seeded-id>/
"""
import json, os, shutil, subprocess, sys, time
from pathlib import Path

ROOT = Path(__file__).resolve().parents[1]


def sh(cmd, cwd=None, env=None, timeout=1800):
    p = subprocess.run(cmd, shell=True, cwd=cwd, env=env, capture_output=True, text=True, timeout=timeout)
    return p.returncode, (p.stdout + p.stderr)


def main():
    d = Path(sys.argv[1]); sid = sys.argv[2]; props = sys.argv[3].split(",")
    env = dict(os.environ, PYTHONPATH=str(d / "src"))
    env.pop("REDUINO_VERIF", None)
    report = {"dir": str(d), "id": sid}
    # the agent's patch.diff is authoritative (git stash is shared between worktrees and has raced before):
    # reset the sources and re-apply it
    if not (d / "patch.diff").exists():
        sh("git diff -- src > patch.diff", cwd=d)
    sh("git checkout -- src", cwd=d)
    rc, out = sh("git apply patch.diff && git diff --stat -- src | tail -1", cwd=d)
    if rc != 0:
        print("patch.diff does not apply:", out)
        return 2
    report["diffstat"] = out.strip()
    rc, out = sh("/venv/bin/python -m pytest -q -p no:cacheprovider 2>&1 | tail -1", cwd=d, env=env)
    rc_t, _ = sh("/venv/bin/python -m pytest -q -p no:cacheprovider -x", cwd=d, env=env)
    report["tests_with_change"] = "passed" if rc_t == 0 else "FAILED: " + out.strip()
    rc_demo, out = sh(f"/venv/bin/python {d}/demo.py", cwd=d, env=env)
    report["demo_with_change_rc"] = rc_demo
    report["demo_with_change_out"] = out.strip()[-300:]
    sh("git apply -R patch.diff", cwd=d)
    try:
        rc_clean, out = sh(f"/venv/bin/python {d}/demo.py", cwd=d, env=env)
        report["demo_without_change_rc"] = rc_clean
        rc_t2, out = sh("/venv/bin/python -m pytest -q -p no:cacheprovider -x 2>&1 | tail -1", cwd=d, env=env)
        report["tests_without_change"] = "passed" if rc_t2 == 0 else "FAILED: " + out.strip()
    finally:
        sh("git apply patch.diff", cwd=d)
    ok = (report["tests_with_change"] == "passed" and rc_demo != 0 and report["demo_without_change_rc"] == 0)
    report["confirmed"] = ok
    caught = {}
    cenv = dict(os.environ, VERIF_REPO=str(d))
    for p in props:
        t0 = time.time()
        rc, out = sh(f"./check {p} quick", cwd=ROOT, env=cenv)
        lines = [l for l in out.splitlines() if "violation run" in l or l.startswith("VIOLATION") or "HARNESS" in l or "fixed finding" in l or "witness of" in l]
        caught[p] = {"exit": rc, "wall_s": round(time.time() - t0, 1), "lines": lines[:3]}
    report["checks"] = caught
    dest = ROOT / "seeded" / sid
    dest.mkdir(parents=True, exist_ok=True)
    shutil.copy(d / "patch.diff", dest / "patch.diff")
    shutil.copy(d / "demo.py", dest / "demo.py")
    meta = {}
    if (d / "meta.json").exists():
        try:
            meta = json.loads((d / "meta.json").read_text())
        except Exception:
            meta = {"raw": (d / "meta.json").read_text()[:2000]}
    meta["verification"] = report
    meta["caught_by"] = sorted(p for p, c in caught.items() if c["exit"] == 1)
    (dest / "meta.json").write_text(json.dumps(meta, indent=1))
    short = {"id": sid, "confirmed": ok, "caught_by": meta["caught_by"], "checks": {p: (c["exit"], c["lines"][:1]) for p, c in caught.items()}}
    print(json.dumps(short, indent=1))
    return 0


if __name__ == "__main__":
    sys.exit(main())
