#!/venv/bin/python
"""Development tool: run an engine over run indices, group violations by class, minimise one per class.
usage: tools/triage.py ENGINE RUNS [avoid,list]"""
import json, os, sys
from pathlib import Path
ROOT = Path(__file__).resolve().parents[1]
sys.path.insert(0, str(ROOT))
os.environ.setdefault("PYTHONHASHSEED", "0")
from dst.core.common import base_seed, rng_for
from dst.core.runner import minimise, avoid_set
from dst.plans import all_engines

name, runs = sys.argv[1], int(sys.argv[2])
extra = sys.argv[3].split(",") if len(sys.argv) > 3 else []
eng = next(e for e in all_engines() if e.name == name)
eng.setup()
avoid = tuple(sorted(set(avoid_set("")) | set(extra)))
seen = {}
for i in range(runs):
    rng = rng_for(base_seed(), eng.name, i); rng._dst_index = i
    case = eng.generate(rng, "quick", avoid)
    case["engine"] = eng.name
    out = eng.execute(case)
    if out.status == "violation" and out.cls not in seen:
        small, steps = minimise(eng, case, out.cls, max_steps=120)
        o2 = eng.execute(small)
        seen[out.cls] = (i, small, o2.message)
        print("=====", out.cls, "run", i)
        print(o2.message)
        print(json.dumps(eng.sample_view(small), indent=1)[:1500])
print("classes:", {k: v[0] for k, v in seen.items()})
