#!/venv/bin/python
"""Development tool: record a *fixed* finding.

usage: tools/mkfixed.py ID PROPERTY ENGINE CASE.json COMMIT "what failed"
Checks that the case violates on the pinned baseline (/tmp/reduino-base worktree) and passes on /repo.
"""
import json
import os
import subprocess
import sys
from pathlib import Path

ROOT = Path(__file__).resolve().parents[1]


def run(case_path, repo):
    env = dict(os.environ, PYTHONPATH=str(ROOT), PYTHONHASHSEED="0", VERIF_REPO=repo, REDUINO_VERIF="1",
               VERIF_WORK=str(ROOT / ".work" / ("base" if repo != "/repo" else "")))
    code = (
        "import json,sys\n"
        "from dst.core.runner import execute_case\n"
        "from dst.plans import all_engines\n"
        "p=json.load(open(sys.argv[1])); case=p.get('case',p); name=sys.argv[2]\n"
        "case['engine']=name\n"
        "eng=next(e for e in all_engines() if e.name==name)\n"
        "o=execute_case(eng,case)\n"
        "print(json.dumps({'status':o.status,'cls':o.cls,'message':o.message}))\n"
    )
    proc = subprocess.run(["/venv/bin/python", "-c", code, case_path, sys.argv[3]], env=env, capture_output=True, text=True, cwd=str(ROOT))
    if proc.returncode != 0:
        print(proc.stderr[-2000:])
        raise SystemExit(2)
    return json.loads(proc.stdout.strip().splitlines()[-1])


def main():
    fid, prop, engine_name, case_path, commit, what = sys.argv[1:7]
    base = run(case_path, "/tmp/reduino-base")
    cur = run(case_path, "/repo")
    print("baseline:", base)
    print("current :", cur)
    if base["status"] != "violation" or cur["status"] == "violation":
        print("not a fixed finding")
        return 1
    payload = json.loads(Path(case_path).read_text())
    case = payload.get("case", payload)
    case["engine"] = engine_name
    case["property"] = prop
    wpath = ROOT / "witness" / f"{fid}.json"
    wpath.write_text(json.dumps({"case": case, "violation": {"cls": base["cls"], "message": base["message"]}}, indent=1, sort_keys=True))
    kpath = ROOT / "known_findings.json"
    data = json.loads(kpath.read_text())
    data["findings"] = [f for f in data["findings"] if f["id"] != fid]
    data["findings"].append(
        {"id": fid, "property": prop, "status": "fixed", "commit": commit, "what": what, "cls": base["cls"],
         "witness": f"witness/{fid}.json", "avoid": [],
         "record": f"fixed: property={prop} {commit} {what}"}
    )
    data["findings"].sort(key=lambda f: f["id"])
    kpath.write_text(json.dumps(data, indent=1, sort_keys=True) + "\n")
    print("recorded fixed", fid)
    return 0


if __name__ == "__main__":
    sys.exit(main())
