#!/venv/bin/python
"""Regenerate MANIFEST.json from the plan table (development tool)."""
import json, subprocess, sys
from pathlib import Path
ROOT = Path(__file__).resolve().parents[1]
sys.path.insert(0, str(ROOT))
from dst.plans import PLANS, LEVELS, all_engines

TEXT = {
 "C01": ("seeded search over programs x worlds x pass counts; the simulated firmware's timed per-channel trace must refine the CPython/host-model trace of the same script in the same world", "4 (C01)"),
 "C02": ("as C01 with a typing swarm (mixed int/float/bool/str flows through branches, loops, helpers, conditional expressions); values printed after every assignment", "4 (C02)"),
 "C03": ("metamorphic pairs P (literal arguments: folding paths) / P' (same values through run-time variables, dead or live mutations in world-selected branches and loops); board(P) ~ host(P), board(P') ~ host(P')", "4 (C03)"),
 "C04": ("seeded actuator operation histories on the simulated board vs the host classes on a shared virtual clock; per-pin timed signals, getter values; clamp sub-engine with out-of-range commands", "4 (C04)"),
 "C05": ("linear-time monitors over the simulated board's event log (run-once markers, once-per-pass markers, configure-before-use, no re-configuration, housekeeping once per pass before user code) plus E1 persistence across N passes", "4 (C05)"),
 "C07": ("programs x meaning-preserving re-layouts (validated against CPython's own ast): byte-identical firmware, board(variant) ~ host(original), and the env-guarded ignored-line log only holds lines of the fixed meaningless set", "4 (C07)"),
 "C08": ("enumeration of call shapes accepted by inspect.signature of the host classes; each accepted shape is executed on the simulated board and compared with the host class bound by Python itself (or with the canonical all-keyword shape)", "4 (C08)"),
 "C09": ("list/str programs under AddressSanitizer+UBSan on the simulated board for N passes; live-heap samples after every pass against the host program's live data", "4 (C09)"),
 "C10": ("fresh interpreters under many PYTHONHASHSEED values and seeded parse/emit call histories; sha256 of the output must not depend on either", "4 (C10)"),
 "C11": ("hostile / mutated / noise texts transpiled in a worker whose every I/O seam is a tripwire (audit hook, canaries, env, cwd, module state), deterministic step budget and RLIMIT_CPU", "4 (C11)"),
 "C12": ("target() on a simulated PC: fake PlatformIO CLI, sandbox FS, fault injected at each of 11 pipeline points x upload x pio-present, effect history judged against ordering rules", "4 (C12)"),
 "C13": ("exhaustive sweep of validate_platform_board over (registry + near misses)^2 and seeded write_project round trips on a sandboxed directory", "4 (C13)"),
 "C15": ("firmware driven by scripted button/ADC/echo waveforms and call timing on the virtual clock; executable reference models of the edge detector and the HC-SR04 retry/back-off/fallback automaton; host Button driven with the same waveform", "4 (C15)"),
 "C16": ("buzzer call histories on the simulated board; tone-protocol automaton and per-call reference written from the statement (counts, gaps, monotone sweep, score x 60000/tempo)", "4 (C16)"),
 "C17": ("LCD operation histories: mock HD44780 cell matrix on the board vs the host LCD buffer at sync points, row/width confinement, progress relations, backlight pin", "4 (C17)"),
 "C18": ("animation tick schedules (early / on time / late / clock jump / boot at 0) on board and host: never blocks, one tick per pass, row confinement, rate limit in millis() units, bounded termination / liveness of looping animations", "4 (C18)"),
 "C19": ("seeded call histories with invalid arguments on the host actuator classes under a virtual sleep; invariants after every call, failed-call atomicity, sleep accounting, reference model of motor mode", "4 (C19)"),
 "C20": ("seeded interleavings over the host pin memory, map/sleep, sensor providers and a fake serial port against dict/list/rational reference models", "4 (C20)"),
}
NA = [
 {"property_id": "C06", "reason": "pure function of the source text (does the output compile): no clock, schedule, I/O, fault or history in it; build failures of generated cases are still reported by the engine that met them, under that engine's property"},
 {"property_id": "C14", "reason": "agreement of three sets read off the output text and a list; nothing depends on execution, time, faults or history (C12's fake `pio run` still builds each project with only its declared lib_deps)"},
]
commits = subprocess.run(["git", "-C", "/repo", "log", "--format=%h %s", "bbb6407..HEAD"], capture_output=True, text=True).stdout.splitlines()
hook_commits = [c.split()[0] for c in commits if not c.split(" ", 1)[1].startswith("fix:")]
checks = []
for pid in sorted(PLANS):
    engines = [e["engine"].name for e in PLANS[pid]]
    text, ref = TEXT[pid]
    checks.append({
        "property_id": pid,
        "quick_cmd": f"./check {pid} quick",
        "thorough_cmd": f"./check {pid} thorough",
        "evidence_file": f"evidence/{pid}.json",
        "replay_cmd_template": f"./check {pid} --replay {{path}}",
        "engine": "+".join(engines),
        "level_claimed": {"category": LEVELS.get(pid, "exploration"), "text": text, "design_ref": f"DESIGN.md {ref}"},
        "level_note": "sampling, not proof; trusted base: mock Arduino core / host executor instrumentation / reference models written for this task, host g++/clang++, CPython; known findings are listed in known_findings.json and their generator features are switched off",
        "technique": "deterministic simulation with fault injection: seeded search over simulated runs (virtual clock, scripted inputs, injected faults), oracle over the recorded history, minimised replay file",
    })
claimed = {c["property_id"] for c in checks}
manifest = {
 "version": 1,
 "setup_cmd": "./setup.sh",
 "hooks": {
  "guard": "REDUINO_VERIF",
  "enable": "export REDUINO_VERIF=1 (done by ./check); Reduino is imported straight from /repo/src, nothing is built or installed",
  "baseline_off_cmd": "cd /repo && env -u REDUINO_VERIF /venv/bin/python -m pytest -q -p no:cacheprovider",
  "source_commits": hook_commits,
  "add_only": True,
 },
 "engines": [{"name": e.name, "path": "dst/engines/" + type(e).__module__.split(".")[-1] + ".py", "serves_properties": sorted(p for p, pl in PLANS.items() if any(x["engine"] is e for x in pl)), "kind_free_text": e.rule[:300]} for e in all_engines()],
 "checks": checks,
 "not_applicable": NA + [{"property_id": p, "reason": "engine not built yet (work in progress); claimed as soon as its check exists"} for p in sorted(set(TEXT) - claimed)],
 "notes": "fix: commits in /repo are listed in known_findings.json (status fixed); checks never write that file",
}
(ROOT / "MANIFEST.json").write_text(json.dumps(manifest, indent=1) + "\n")
print("checks:", sorted(claimed))
