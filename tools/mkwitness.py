#!/venv/bin/python
"""Development tool: record a known finding (witness replay file + entry in known_findings.json).

usage: tools/mkwitness.py ID PROPERTY ENGINE CASE.json "what fails" [avoid,features]
CASE.json holds the engine case (e.g. {"script": ..., "worlds": [...]}) or a replay payload.
The file is never touched by the checks at run time.
"""
import json
import os
import sys
from pathlib import Path

ROOT = Path(__file__).resolve().parents[1]
sys.path.insert(0, str(ROOT))
os.environ.setdefault("PYTHONHASHSEED", "0")

from dst.core.runner import execute_case  # noqa: E402
from dst.plans import all_engines  # noqa: E402


def main():
    fid, prop, engine_name, case_path, what = sys.argv[1:6]
    avoid = sys.argv[6].split(",") if len(sys.argv) > 6 and sys.argv[6] else []
    payload = json.loads(Path(case_path).read_text())
    case = payload.get("case", payload)
    case["engine"] = engine_name
    case["property"] = prop
    engine = next(e for e in all_engines() if e.name == engine_name)
    out = execute_case(engine, case)
    if out.status != "violation":
        print("case does not violate:", out.status, out.message)
        return 1
    wdir = ROOT / "witness"
    wdir.mkdir(exist_ok=True)
    wpath = wdir / f"{fid}.json"
    wpath.write_text(json.dumps({"case": case, "violation": {"cls": out.cls, "message": out.message}}, indent=1, sort_keys=True))
    kpath = ROOT / "known_findings.json"
    data = json.loads(kpath.read_text())
    data["findings"] = [f for f in data["findings"] if f["id"] != fid]
    data["findings"].append(
        {"id": fid, "property": prop, "status": "open", "what": what, "cls": out.cls, "witness": f"witness/{fid}.json", "avoid": avoid}
    )
    data["findings"].sort(key=lambda f: f["id"])
    kpath.write_text(json.dumps(data, indent=1, sort_keys=True) + "\n")
    print("recorded", fid, out.cls, out.message)
    return 0


if __name__ == "__main__":
    sys.exit(main())
