#!/bin/bash
# usage: tools/thorough.sh "<props>" "<seeds>"  -- runs the thorough tier, prints non-OK results (development aid)
cd "$(dirname "$0")/.." || exit 2
if [ -n "$VP_RUN_REPO" ]; then export VERIF_REPO="$VP_RUN_REPO"; fi
./setup.sh >/dev/null 2>&1
props=${1:-"C01"}
seeds=${2:-"1"}
for s in $seeds; do
  for p in $props; do
    t0=$(date +%s)
    out=$(VERIF_SEED=$s ./check $p thorough 2>&1)
    rc=$?
    dt=$(( $(date +%s) - t0 ))
    if [ $rc -ne 0 ]; then
      echo "=== seed=$s prop=$p exit=$rc wall=${dt}s"
      echo "$out" | grep -E "violation run|VIOLATION|HARNESS|Traceback|Error" | head -8
      for f in $(echo "$out" | grep -oE "replay=\S+" | cut -d= -f2); do cp "$f" "thorough-$(basename $f)" 2>/dev/null; done
    else
      echo "ok seed=$s prop=$p wall=${dt}s $(echo "$out" | grep -E "engine=" | sed 's/.*runs=\([0-9]*\).*/runs=\1/' | tr '\n' ' ')"
    fi
  done
done
