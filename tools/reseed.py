#!/venv/bin/python
"""Re-evaluate every stored seeded change against the current checks (regression of sensitivity).

usage: tools/reseed.py [S01 S02 ...]     (default: all of /verif/seeded)
Needs a scratch worktree of /repo; creates /tmp/mw/re and removes it afterwards.
Prints one line per change; exit 1 if a change that was caught before is missed now.
"""
import json, os, subprocess, sys
from pathlib import Path

ROOT = Path(__file__).resolve().parents[1]
WT = Path("/tmp/mw/re")


def sh(cmd, cwd=None, env=None):
    p = subprocess.run(cmd, shell=True, cwd=cwd, env=env, capture_output=True, text=True)
    return p.returncode, p.stdout + p.stderr


def main():
    want = set(sys.argv[1:])
    dirs = sorted(d for d in (ROOT / "seeded").iterdir() if d.is_dir() and (not want or d.name.split("-")[0] in want))
    WT.parent.mkdir(parents=True, exist_ok=True)
    sh(f"git -C /repo worktree remove --force {WT}")
    rc, out = sh(f"git -C /repo worktree add --detach {WT} HEAD")
    if rc:
        print(out)
        return 2
    bad = 0
    try:
        for d in dirs:
            meta = json.loads((d / "meta.json").read_text())
            if meta.get("retired"):
                print(f"{d.name}: retired ({meta['retired'][:80]}...)", flush=True)
                continue
            props = meta.get("caught_by") or [meta.get("property", d.name.split("-")[1])]
            sh("git checkout -- src", cwd=WT)
            rc, out = sh(f"git apply {d / 'patch.diff'}", cwd=WT)
            if rc:
                print(f"{d.name}: patch does not apply any more: {out.strip()[:120]}")
                continue
            res = {}
            for p in props:
                rc, out = sh(f"./check {p} quick", cwd=ROOT, env=dict(os.environ, VERIF_REPO=str(WT), VERIF_WORK="/tmp/mw/re-work"))
                res[p] = rc
            missed = [p for p, rc in res.items() if rc != 1]
            if missed:
                bad += 1
            print(f"{d.name}: " + " ".join(f"{p}={'caught' if rc == 1 else 'MISSED(rc=%d)' % rc}" for p, rc in res.items()), flush=True)
    finally:
        sh(f"git -C /repo worktree remove --force {WT}")
        sh("git -C /repo worktree prune")
        sh("rm -rf /tmp/mw/re-work")
    return 1 if bad else 0


if __name__ == "__main__":
    sys.exit(main())
